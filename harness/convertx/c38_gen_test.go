package convertx

import (
	"fmt"
	"sort"
	"strings"
	"sync"
	"time"

	"github.com/honeycombio/refinery/config"
	"pgregory.net/rapid"
)

// ---------------------------------------------------------------- case

type c38Val struct {
	K string      `json:"k"` // int | float | str | bool | list | map | none
	I int64       `json:"i,omitempty"`
	F float64     `json:"f,omitempty"`
	S string      `json:"s,omitempty"`
	B bool        `json:"b,omitempty"`
	L []string    `json:"l,omitempty"`
	M [][2]string `json:"m,omitempty"`
}

func (v c38Val) node() *c38Node {
	switch v.K {
	case "int":
		return c38Int(v.I)
	case "float":
		return c38Float(v.F)
	case "str":
		return c38Str(v.S)
	case "bool":
		return c38Bool(v.B)
	case "list":
		return c38StrList(v.L)
	case "map":
		m := c38Map()
		for _, kv := range v.M {
			m.Set(kv[0], c38Str(kv[1]))
		}
		return m
	}
	return nil
}

func (v c38Val) String() string {
	switch v.K {
	case "int":
		return fmt.Sprint(v.I)
	case "float":
		return fmt.Sprint(v.F)
	case "str":
		return fmt.Sprintf("%q", v.S)
	case "bool":
		return fmt.Sprint(v.B)
	case "list":
		return fmt.Sprintf("%q", v.L)
	case "map":
		return fmt.Sprintf("%q", v.M)
	}
	return "-"
}

type c38Set struct {
	Path string `json:"path"` // canonical v1 path, e.g. "InMemCollector.MaxAlloc"
	Val  c38Val `json:"val"`
	// for settings with alternative v1 group spellings ("SampleCacheConfig/SampleCache.KeptSize"):
	// the spelling Val is written under ("" = the canonical one), and optionally a second
	// spelling holding a different value in the same document
	Group string  `json:"group,omitempty"`
	Alt   *c38Alt `json:"alt,omitempty"`
}

type c38Alt struct {
	Group string `json:"group"`
	Val   c38Val `json:"val"`
}

type c38Placement struct {
	Group string
	Val   c38Val
}

func c38Placements(s *c38Setting, st c38Set) []c38Placement {
	g := st.Group
	if g == "" {
		g = s.V1Group
	}
	out := []c38Placement{{g, st.Val}}
	if st.Alt != nil && st.Alt.Group != g && st.Alt.Val.node() != nil {
		out = append(out, c38Placement{st.Alt.Group, st.Alt.Val})
	}
	return out
}

// c38SetName is the v1 spelling of a generated setting, used in signatures.
func c38SetName(s *c38Setting, st c38Set) string {
	pl := c38Placements(s, st)
	if pl[0].Group == "" {
		return s.V1Key
	}
	if len(pl) == 1 {
		return pl[0].Group + "." + s.V1Key
	}
	var gs []string
	for _, a := range s.Aliases {
		for _, p := range pl {
			if p.Group == a {
				gs = append(gs, a)
			}
		}
	}
	if len(gs) != len(pl) {
		gs = []string{pl[0].Group, pl[1].Group}
	}
	return strings.Join(gs, "+") + "." + s.V1Key
}

// c38Judged says which of the written values the documented lookup order
// ("A/B.Key": A first, then B) selects. When an earlier alternative section
// exists in the document only because of *other* keys, the documentation does
// not say whether the lookup falls through per key: not judged.
func c38Judged(tab *c38Table, sets []c38Set, st c38Set) (c38Val, bool) {
	s := tab.ByPath[st.Path]
	pl := c38Placements(s, st)
	if len(s.Aliases) == 0 {
		return pl[0].Val, true
	}
	sections := map[string]bool{}
	for _, o := range sets {
		if os := tab.ByPath[o.Path]; os != nil {
			for _, p := range c38Placements(os, o) {
				sections[p.Group] = true
			}
		}
	}
	for _, a := range s.Aliases {
		if !sections[a] {
			continue
		}
		for _, p := range pl {
			if p.Group == a {
				return p.Val, true
			}
		}
		return c38Val{}, false
	}
	return pl[0].Val, true
}

type c38Case struct {
	Kind     string      `json:"kind"`   // config | rules
	Format   string      `json:"format"` // toml | yaml | json
	Settings []c38Set    `json:"settings,omitempty"`
	Rules    *c38RuleDoc `json:"rules,omitempty"`
}

// ---------------------------------------------------------------- value generators

var c38DurCands = []string{"100ms", "250ms", "500ms", "750ms", "1s", "1500ms", "2s", "3s", "5s", "10s", "15s", "20s", "30s", "45s",
	"1m", "90s", "1m30s", "2m", "3m", "5m", "10m", "15m", "20m", "30m", "1h", "90m", "1h30m", "2h", "24h"}

var c38HostPorts = []string{"0.0.0.0:9090", "localhost:8085", "127.0.0.1:6060", "[::1]:8080", ":8080", "refinery.internal:4317", "10.1.2.3:80", "redis-master:6379"}
var c38URLs = []string{"https://api.eu1.honeycomb.io", "http://localhost:8080", "https://proxy.example.com:8443/hny", "http://10.0.0.1:9000", "https://api.honeycomb.io:443"}
var c38PeerURLs = []string{"http://127.0.0.1:8081", "http://10.1.2.3:8080", "http://refinery-1231:8080", "http://peer-3.fqdn", "https://refinery-2.internal:8443"}
var c38FieldNames = []string{"trace.span_id", "error", "http.status_code", "service name", "app.user_id", "exception.message", "duration_ms", "k8s.pod-name", "app/route", "request.method"}
var c38FreeStrings = []string{"refinery-logs", "Refinery Logs", "my logs", "prod", "staging_2", "team:infra", "a#b", "it's", `say "hi"`, `dom\user`,
	"12345", "007", "true", "null", "1e5", "0x1F", "- dash", "*star", "&anchor", "{brace}", "[b]", "key: value", "#1Pass!", "p@ss:w0rd", "s3cr3t",
	"100%", "a,b", "!bang", "|pipe", ">gt", "eth0", "192.168.1.1", "refinery-0.refinery", "[secret]", "[", "`tick", "a_b^c", "{a: b}", "@home", "%temp%"}

// strings that stress the quoting of the converter's YAML writer: both quote
// kinds, a quote next to colon-space / '#' / leading or trailing blanks,
// backslashes with quotes, tab and newline. All are ordinary values of a free
// string setting (token, password, dataset or user name) in TOML, YAML and JSON.
var c38HostileStrings = []string{`it's a "secret" token`, `"'`, `'"x`, `a'b"c`, `say "hi": now`, `it's: ok`, `"q": 'v'`, ` "lead`, `trail' `, ` it's "x" `,
	`"#1" pass`, `x #"y'`, `it's #1`, `dom\user "x"`, `c:\dir 'y'`, `\"`, `a\'b"`, `back\slash`, "tab\t'x'\"y\"", "line1\nline\"2\"", "it's\ntwo lines", "say \"hi\"\tthere", `'single'`, `"double"`, `''`, `""`}

const c38QuoteAlphabet = "ab1 '\":#\\"

const c38Hex = "0123456789abcdef"
const c38Alnum = "0123456789abcdefghijklmnopqrstuvwxyzABCDEFGHIJKLMNOPQRSTUVWXYZ"
const c38FreeAlphabet = "abcdefghijklmnopqrstuvwxyzABCDEFGHIJKLMNOPQRSTUVWXYZ0123456789 _-.:/#'\"@!%&*+,=?[]{}|<>~^`\\()"

// per-v1-path value languages the metadata does not spell out (taken from the
// comments of the v1 reference file)
var c38Special = map[string][]string{
	"StressRelief.Mode":                      {"never", "monitor", "always"},
	"PeerManagement.IdentifierInterfaceName": {"eth0", "en0", "ens5", "bond0.100"},
	"SampleCacheConfig.Type":                 {"legacy", "cuckoo"},
}

// c38Roll is an unbiased die 0..n-1 (rapid's own integer generators favour
// small values, which would skew every weight below). Shrinks towards 0.
func c38Roll(t *rapid.T, n int, label string) int {
	if n <= 1 {
		return 0
	}
	bits := 0
	for 1<<bits < n {
		bits++
	}
	bits += 3
	v := 0
	for i := 0; i < bits; i++ {
		v <<= 1
		if rapid.Bool().Draw(t, label) {
			v |= 1
		}
	}
	return v % n
}

func c38StrOf(t *rapid.T, alphabet string, min, max int, label string) string {
	n := rapid.IntRange(min, max).Draw(t, label+"-len")
	b := make([]byte, n)
	for i := range b {
		b[i] = alphabet[rapid.IntRange(0, len(alphabet)-1).Draw(t, label+"-ch")]
	}
	return string(b)
}

func c38GenAPIKey(t *rapid.T, label string) string {
	switch c38Roll(t, 10, label+"-keykind") {
	case 0, 1, 2, 3:
		return c38StrOf(t, c38Hex, 32, 32, label)
	case 4: // a classic key that happens to be all decimal digits
		return c38StrOf(t, "0123456789", 32, 32, label)
	default:
		return c38StrOf(t, c38Alnum, 20, 23, label)
	}
}

var (
	c38FreeOnce    sync.Once
	c38FreeBuckets map[string][]string
)

// c38GenFree draws a free-form string (token, dataset name, user name): first the
// class (what YAML makes of it as a plain scalar), then a member of the class.
func c38GenFree(t *rapid.T, label string) string {
	c38FreeOnce.Do(func() {
		c38FreeBuckets = map[string][]string{}
		for _, s := range c38FreeStrings {
			c := c38StrClass(s)
			if strings.HasPrefix(c, "needsquote") {
				c = "needsquote"
			}
			c38FreeBuckets[c] = append(c38FreeBuckets[c], s)
		}
	})
	switch k := c38Roll(t, 20, label+"-free"); {
	case k < 5:
		return rapid.SampledFrom(c38FreeBuckets["plain"]).Draw(t, label+"-pick")
	case k < 8:
		return rapid.SampledFrom(c38FreeBuckets["punct"]).Draw(t, label+"-pick")
	case k < 10:
		return rapid.SampledFrom(c38FreeBuckets["scalarlike"]).Draw(t, label+"-pick")
	case k < 13:
		return rapid.SampledFrom(c38FreeBuckets["needsquote"]).Draw(t, label+"-pick")
	case k < 16:
		return c38HostileStrings[c38Roll(t, len(c38HostileStrings), label+"-hostile")]
	case k < 18:
		// short random mixes of quotes, blanks, colon, hash and backslash (blanks kept)
		if q := c38StrOf(t, c38QuoteAlphabet, 2, 8, label+"-q"); strings.TrimSpace(q) != "" {
			return q
		}
		return `'"`
	}
	s := strings.TrimSpace(c38StrOf(t, c38FreeAlphabet, 1, 12, label))
	if s == "" || s == "*" {
		s = "x"
	}
	return s
}

func c38HasVal(s *c38Setting, typ string) (any, bool) {
	for _, v := range s.Vals {
		if v.Type == typ {
			return v.Arg, true
		}
	}
	return nil, false
}

func c38DurArg(a any) time.Duration {
	switch x := a.(type) {
	case string:
		d, _ := time.ParseDuration(x)
		return d
	case int:
		return time.Duration(x)
	}
	return 0
}

func c38IntArg(a any) (int64, bool) {
	switch x := a.(type) {
	case int:
		return int64(x), true
	case int64:
		return x, true
	case float64:
		return int64(x), true
	case string:
		var m config.MemorySize
		if m.UnmarshalText([]byte(x)) == nil {
			return int64(m), true
		}
	}
	return 0, false
}

// c38GenValue draws a value that is valid for the setting's v1 type and for
// the v2 validations of its counterpart. nonDefault: avoid the v2 default.
func c38GenValue(t *rapid.T, s *c38Setting, label string) c38Val {
	wantDefault := c38Roll(t, 12, label+"-eqdef") == 0
	if sp, ok := c38Special[s.V1Path]; ok {
		return c38Val{K: "str", S: c38PickStr(t, sp, s.Default, wantDefault, label)}
	}
	switch {
	case s.ValueType == "secondstoduration":
		return c38Val{K: "int", I: int64(rapid.SampledFrom([]int{1, 3, 10, 15, 45, 60, 90, 120, 300, 600, 3600, 7200}).Draw(t, label))}
	case s.ValueType == "memorysize":
		return c38Val{K: "int", I: rapid.SampledFrom([]int64{1, 1000, 1024, 65536, 1_000_000, 1 << 20, 123_456_789, 1_000_000_000, 1 << 30, 4_500_000_000, 16 << 30}).Draw(t, label)}
	}
	switch s.Type {
	case "duration":
		var min time.Duration
		if a, ok := c38HasVal(s, "minimum"); ok {
			min = c38DurArg(a)
		}
		if a, ok := c38HasVal(s, "minOrZero"); ok {
			min = c38DurArg(a)
		}
		def, _ := s.Default.(string)
		var cands []string
		for _, c := range c38DurCands {
			d, _ := time.ParseDuration(c)
			dd, err := time.ParseDuration(def)
			isDef := err == nil && dd == d
			if d >= min && d > 0 && isDef == (wantDefault && err == nil) {
				cands = append(cands, c)
			}
		}
		if len(cands) == 0 {
			cands = []string{"1h"}
		}
		return c38Val{K: "str", S: rapid.SampledFrom(cands).Draw(t, label)}
	case "int", "percentage":
		lo, hi := int64(1), int64(10_000_000)
		if s.Type == "percentage" {
			hi = 100
		}
		if a, ok := c38HasVal(s, "minimum"); ok {
			if m, ok := c38IntArg(a); ok && m > lo {
				lo = m
			}
		}
		if a, ok := c38HasVal(s, "maximum"); ok {
			if m, ok := c38IntArg(a); ok && m < hi {
				hi = m
			}
		}
		def, hasDef := c38IntArg(s.Default)
		if wantDefault && hasDef && def >= lo && def <= hi {
			return c38Val{K: "int", I: def}
		}
		var v int64
		if rapid.Bool().Draw(t, label+"-edge") {
			cands := []int64{lo, lo + 1, hi}
			for _, c := range []int64{5, 50, 101, 999, 1000, 1234, 2500, 50_000, 65_536, 1_000_000, 2_000_000} {
				if c >= lo && c <= hi {
					cands = append(cands, c)
				}
			}
			v = rapid.SampledFrom(cands).Draw(t, label)
		} else {
			v = rapid.Int64Range(lo, hi).Draw(t, label)
		}
		if hasDef && v == def {
			if v < hi {
				v++
			} else {
				v--
			}
		}
		return c38Val{K: "int", I: v}
	case "bool", "defaulttrue":
		def, _ := s.Default.(bool)
		if wantDefault {
			return c38Val{K: "bool", B: def}
		}
		return c38Val{K: "bool", B: !def}
	case "hostport":
		return c38Val{K: "str", S: c38PickStr(t, c38HostPorts, s.Default, wantDefault, label)}
	case "url":
		return c38Val{K: "str", S: c38PickStr(t, c38URLs, s.Default, wantDefault, label)}
	case "v1choice":
		return c38Val{K: "str", S: rapid.SampledFrom(s.Choices).Draw(t, label)}
	case "string":
		if len(s.Choices) > 0 {
			return c38Val{K: "str", S: c38PickStr(t, s.Choices, s.Default, wantDefault, label)}
		}
		if a, ok := c38HasVal(s, "format"); ok {
			switch a {
			case "apikey", "apikeyOrBlank":
				return c38Val{K: "str", S: c38GenAPIKey(t, label)}
			case "alphanumeric":
				return c38Val{K: "str", S: c38StrOf(t, c38Alnum, 1, 12, label)}
			}
		}
		if def, ok := s.Default.(string); ok && wantDefault && def != "" {
			return c38Val{K: "str", S: def}
		}
		v := c38GenFree(t, label)
		if def, ok := s.Default.(string); ok && v == def {
			v += "2"
		}
		return c38Val{K: "str", S: v}
	case "stringarray":
		et, _ := c38HasVal(s, "elementType")
		n := rapid.IntRange(1, 4).Draw(t, label+"-n")
		star := -1
		if s.V1Path == "APIKeys" && c38Roll(t, 10, label+"-star") < 2 {
			star = c38Roll(t, n, label+"-starpos")
		}
		var l []string
		for i := 0; i < n; i++ {
			el := fmt.Sprintf("%s-%d", label, i)
			switch {
			case s.V1Path == "APIKeys":
				if i == star {
					l = append(l, "*")
				} else {
					l = append(l, c38GenAPIKey(t, el))
				}
			case et == "url":
				l = append(l, rapid.SampledFrom(c38PeerURLs).Draw(t, el))
			case et == "hostport":
				l = append(l, rapid.SampledFrom(c38HostPorts).Draw(t, el))
			default:
				l = append(l, rapid.SampledFrom(c38FieldNames).Draw(t, el))
			}
		}
		return c38Val{K: "list", L: l}
	case "map":
		n := rapid.IntRange(1, 3).Draw(t, label+"-n")
		var m [][2]string
		seen := map[string]bool{}
		for i := 0; i < n; i++ {
			k := rapid.SampledFrom([]string{"ClusterName", "environment", "pipeline.id", "region", "team_name"}).Draw(t, fmt.Sprintf("%s-k%d", label, i))
			if seen[k] {
				continue
			}
			seen[k] = true
			m = append(m, [2]string{k, c38GenFree(t, fmt.Sprintf("%s-v%d", label, i))})
		}
		return c38Val{K: "map", M: m}
	}
	return c38Val{K: "none"}
}

func c38PickStr(t *rapid.T, cands []string, def any, wantDefault bool, label string) string {
	d, _ := def.(string)
	var pool []string
	for _, c := range cands {
		if (c == d) == wantDefault {
			pool = append(pool, c)
		}
	}
	if len(pool) == 0 {
		pool = cands
	}
	return rapid.SampledFrom(pool).Draw(t, label)
}

// ---------------------------------------------------------------- case generator

func genC38(t *rapid.T) c38Case {
	tab, err := c38LoadTable()
	if err != nil {
		panic("C38: cannot build the domain table: " + err.Error())
	}
	c := c38Case{Format: []string{"toml", "yaml", "json"}[c38Roll(t, 3, "format")]}
	if c38Roll(t, 20, "kind") < 7 {
		c.Kind = "rules"
		c.Rules = genC38Rules(t)
		return c
	}
	c.Kind = "config"
	// removed settings make the current converter abandon the template, so they
	// are present in a minority of cases only (the rest must stay observable)
	withRemoved := c38Roll(t, 10, "with-removed") < 2
	withMap := c38Roll(t, 10, "with-map") < 2
	var pool []*c38Setting
	for _, s := range tab.Settings {
		if s.Removed && !withRemoved {
			continue
		}
		if s.Type == "map" && !withMap {
			continue
		}
		pool = append(pool, s)
	}
	max := len(pool)
	if max > 40 {
		max = 40
	}
	// which settings: an unbiased shuffle of the pool, cut at an unbiased length
	// (shrinks towards a short prefix of the table order)
	all := make([]int, len(pool))
	for i := range all {
		all[i] = i
	}
	n := 1 + c38Roll(t, max, "nsettings")
	idx := append([]int(nil), rapid.Permutation(all).Draw(t, "settings")[:n]...)
	// aim: most cases carry one renamed and one unit/type-converted setting
	if c38Roll(t, 10, "aim") < 7 {
		have := map[int]bool{}
		for _, i := range idx {
			have[i] = true
		}
		var unit, ren []int
		for i, s := range pool {
			if s.Removed {
				continue
			}
			if s.Unit || len(s.Conds) > 0 {
				unit = append(unit, i)
			}
			if s.Renamed {
				ren = append(ren, i)
			}
		}
		for _, set := range [][]int{unit, ren} {
			if len(set) == 0 {
				continue
			}
			i := rapid.SampledFrom(set).Draw(t, "aimed")
			if !have[i] {
				have[i] = true
				idx = append(idx, i)
			}
		}
	}
	// alternative group spellings: one decision per family and case, so that a
	// document regularly has ONLY the second spelling (the one v1 implemented)
	famMode := map[string]int{}
	for _, i := range idx {
		s := pool[i]
		st := c38Set{Path: s.V1Path, Val: c38GenValue(t, s, s.V1Path)}
		if len(s.Aliases) > 1 {
			fam := strings.Join(s.Aliases, "/")
			mode, ok := famMode[fam]
			if !ok {
				switch k := c38Roll(t, 20, "alias-"+fam); {
				case k < 6:
					mode = 0 // first spelling only
				case k < 16:
					mode = 1 // another spelling only
				default:
					mode = 2 // both sections, different values
				}
				famMode[fam] = mode
			}
			other := s.Aliases[1+c38Roll(t, len(s.Aliases)-1, "alias-which-"+fam)]
			switch mode {
			case 0:
				st.Group = s.Aliases[0]
			case 1:
				st.Group = other
			case 2:
				st.Group = s.Aliases[0]
				av := c38GenValue(t, s, s.V1Path+"-alt")
				if av.String() == st.Val.String() {
					switch av.K {
					case "int":
						av.I++
					case "bool":
						av.B = !av.B
					case "str":
						if s.Type == "duration" {
							av.S = "47m"
						} else {
							av.S += "x"
						}
					}
				}
				st.Alt = &c38Alt{Group: other, Val: av}
			}
		}
		c.Settings = append(c.Settings, st)
	}
	return c
}

// c38ConfigDoc builds the v1 document for a list of settings (in case order).
func c38ConfigDoc(tab *c38Table, sets []c38Set) *c38Node {
	doc := c38Map()
	for _, st := range sets {
		s := tab.ByPath[st.Path]
		if s == nil || st.Val.node() == nil {
			continue
		}
		for _, p := range c38Placements(s, st) {
			n := p.Val.node()
			if p.Group == "" {
				doc.Set(s.V1Key, n)
				continue
			}
			g := doc.Get(p.Group)
			if g == nil {
				g = c38Map()
				doc.Set(p.Group, g)
			}
			g.Set(s.V1Key, n)
		}
	}
	return doc
}

func c38SortedNotes(tab *c38Table) []string {
	n := append([]string(nil), tab.Notes...)
	sort.Strings(n)
	return n
}
