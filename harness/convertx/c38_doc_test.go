package convertx

// C38: a tiny ordered document tree and hand-written TOML / YAML / JSON
// emitters, so that the same generated v1 document can be fed to the converter
// in each of the three formats it accepts (the three loaders produce different
// Go number types: TOML int64, YAML int, JSON float64).

import (
	"fmt"
	"regexp"
	"strconv"
	"strings"
)

type c38Node struct {
	Kind  byte // 'm' map, 'l' list, 's' string, 'i' int, 'f' float, 'b' bool
	Keys  []string
	Vals  []*c38Node
	Items []*c38Node
	S     string
	I     int64
	F     float64
	B     bool
}

func c38Map() *c38Node                { return &c38Node{Kind: 'm'} }
func c38Str(s string) *c38Node        { return &c38Node{Kind: 's', S: s} }
func c38Int(i int64) *c38Node         { return &c38Node{Kind: 'i', I: i} }
func c38Float(f float64) *c38Node     { return &c38Node{Kind: 'f', F: f} }
func c38Bool(b bool) *c38Node         { return &c38Node{Kind: 'b', B: b} }
func c38List(it ...*c38Node) *c38Node { return &c38Node{Kind: 'l', Items: it} }
func c38StrList(l []string) *c38Node {
	n := &c38Node{Kind: 'l'}
	for _, s := range l {
		n.Items = append(n.Items, c38Str(s))
	}
	return n
}

func (n *c38Node) Set(k string, v *c38Node) *c38Node {
	for i, kk := range n.Keys {
		if kk == k {
			n.Vals[i] = v
			return n
		}
	}
	n.Keys = append(n.Keys, k)
	n.Vals = append(n.Vals, v)
	return n
}

func (n *c38Node) Get(k string) *c38Node {
	for i, kk := range n.Keys {
		if kk == k {
			return n.Vals[i]
		}
	}
	return nil
}

func (n *c38Node) scalar() bool { return n.Kind != 'm' && n.Kind != 'l' }

func (n *c38Node) listOfMaps() bool {
	if n.Kind != 'l' || len(n.Items) == 0 {
		return false
	}
	for _, it := range n.Items {
		if it.Kind != 'm' {
			return false
		}
	}
	return true
}

func c38FloatText(f float64) string {
	s := strconv.FormatFloat(f, 'f', -1, 64)
	if !strings.ContainsAny(s, ".eE") {
		s += ".0"
	}
	return s
}

// JSON-style double-quoted string: valid JSON, valid YAML double-quoted
// scalar and valid TOML basic string for the printable-ASCII strings we generate.
func c38Quote(s string) string {
	var b strings.Builder
	b.WriteByte('"')
	for _, r := range s {
		switch {
		case r == '"':
			b.WriteString(`\"`)
		case r == '\\':
			b.WriteString(`\\`)
		case r == '\n':
			b.WriteString(`\n`)
		case r == '\t':
			b.WriteString(`\t`)
		case r < 0x20 || r == 0x7f:
			fmt.Fprintf(&b, `\u%04x`, r)
		default:
			b.WriteRune(r)
		}
	}
	b.WriteByte('"')
	return b.String()
}

// ---------------------------------------------------------------- JSON

func c38JSON(n *c38Node) string {
	var b strings.Builder
	c38json(&b, n, 0)
	b.WriteByte('\n')
	return b.String()
}

func c38json(b *strings.Builder, n *c38Node, ind int) {
	pad := strings.Repeat("  ", ind+1)
	switch n.Kind {
	case 'm':
		if len(n.Keys) == 0 {
			b.WriteString("{}")
			return
		}
		b.WriteString("{\n")
		for i, k := range n.Keys {
			b.WriteString(pad + c38Quote(k) + ": ")
			c38json(b, n.Vals[i], ind+1)
			if i < len(n.Keys)-1 {
				b.WriteByte(',')
			}
			b.WriteByte('\n')
		}
		b.WriteString(strings.Repeat("  ", ind) + "}")
	case 'l':
		b.WriteByte('[')
		for i, it := range n.Items {
			if i > 0 {
				b.WriteString(", ")
			}
			c38json(b, it, ind+1)
		}
		b.WriteByte(']')
	case 's':
		b.WriteString(c38Quote(n.S))
	case 'i':
		b.WriteString(strconv.FormatInt(n.I, 10))
	case 'f':
		b.WriteString(c38FloatText(n.F))
	case 'b':
		b.WriteString(strconv.FormatBool(n.B))
	}
}

// ---------------------------------------------------------------- YAML

var c38YAMLPlain = regexp.MustCompile(`^[A-Za-z][A-Za-z0-9_./-]*$`)

func c38YAMLScalarString(s string) string {
	if c38YAMLPlain.MatchString(s) {
		switch strings.ToLower(s) {
		case "true", "false", "null", "yes", "no", "on", "off", "y", "n":
		default:
			return s
		}
	}
	return c38Quote(s)
}

func c38YAMLScalar(n *c38Node) string {
	switch n.Kind {
	case 's':
		return c38YAMLScalarString(n.S)
	case 'i':
		return strconv.FormatInt(n.I, 10)
	case 'f':
		return c38FloatText(n.F)
	case 'b':
		return strconv.FormatBool(n.B)
	}
	return ""
}

func c38YAML(n *c38Node) string {
	var b strings.Builder
	c38yamlMap(&b, n, 0)
	return b.String()
}

func c38yamlMap(b *strings.Builder, n *c38Node, ind int) {
	pad := strings.Repeat(" ", ind)
	for i, k := range n.Keys {
		c38yamlEntry(b, pad, c38YAMLScalarString(k), n.Vals[i], ind)
	}
}

func c38yamlEntry(b *strings.Builder, pad, key string, v *c38Node, ind int) {
	switch {
	case v.scalar():
		b.WriteString(pad + key + ": " + c38YAMLScalar(v) + "\n")
	case v.Kind == 'm':
		if len(v.Keys) == 0 {
			b.WriteString(pad + key + ": {}\n")
			return
		}
		b.WriteString(pad + key + ":\n")
		c38yamlMap(b, v, ind+2)
	case v.Kind == 'l':
		if len(v.Items) == 0 {
			b.WriteString(pad + key + ": []\n")
			return
		}
		b.WriteString(pad + key + ":\n")
		for _, it := range v.Items {
			ipad := strings.Repeat(" ", ind+2)
			switch {
			case it.scalar():
				b.WriteString(ipad + "- " + c38YAMLScalar(it) + "\n")
			case it.Kind == 'm':
				if len(it.Keys) == 0 {
					b.WriteString(ipad + "- {}\n")
					continue
				}
				// first key on the dash line, the rest aligned below it
				var sub strings.Builder
				c38yamlMap(&sub, it, ind+4)
				text := sub.String()
				b.WriteString(ipad + "- " + strings.TrimPrefix(text, strings.Repeat(" ", ind+4)))
			case it.Kind == 'l':
				parts := make([]string, len(it.Items))
				for i, x := range it.Items {
					parts[i] = c38YAMLScalar(x)
				}
				b.WriteString(ipad + "- [" + strings.Join(parts, ", ") + "]\n")
			}
		}
	}
}

// ---------------------------------------------------------------- TOML

var c38TOMLBare = regexp.MustCompile(`^[A-Za-z0-9_-]+$`)

func c38TOMLKey(k string) string {
	if c38TOMLBare.MatchString(k) {
		return k
	}
	return c38Quote(k)
}

func c38TOMLValue(n *c38Node) string {
	switch n.Kind {
	case 's':
		return c38Quote(n.S)
	case 'i':
		return strconv.FormatInt(n.I, 10)
	case 'f':
		return c38FloatText(n.F)
	case 'b':
		return strconv.FormatBool(n.B)
	case 'l':
		parts := make([]string, len(n.Items))
		for i, x := range n.Items {
			parts[i] = c38TOMLValue(x)
		}
		return "[" + strings.Join(parts, ", ") + "]"
	case 'm': // inline table (only used inside arrays of mixed content)
		parts := make([]string, len(n.Keys))
		for i, k := range n.Keys {
			parts[i] = c38TOMLKey(k) + " = " + c38TOMLValue(n.Vals[i])
		}
		return "{ " + strings.Join(parts, ", ") + " }"
	}
	return ""
}

func c38TOML(n *c38Node) string {
	var b strings.Builder
	c38tomlTable(&b, n, nil)
	return b.String()
}

func c38tomlTable(b *strings.Builder, n *c38Node, path []string) {
	ind := strings.Repeat("  ", len(path))
	// scalars and scalar lists first
	for i, k := range n.Keys {
		v := n.Vals[i]
		if v.scalar() || (v.Kind == 'l' && !v.listOfMaps()) {
			b.WriteString(ind + c38TOMLKey(k) + " = " + c38TOMLValue(v) + "\n")
		}
	}
	for i, k := range n.Keys {
		v := n.Vals[i]
		p := append(append([]string(nil), path...), c38TOMLKey(k))
		switch {
		case v.Kind == 'm':
			b.WriteString(ind + "[" + strings.Join(p, ".") + "]\n")
			c38tomlTable(b, v, p)
		case v.listOfMaps():
			for _, it := range v.Items {
				b.WriteString(ind + "[[" + strings.Join(p, ".") + "]]\n")
				c38tomlTable(b, it, p)
			}
		}
	}
}

func c38Serialize(format string, n *c38Node) (text, ext string) {
	switch format {
	case "toml":
		return c38TOML(n), ".toml"
	case "yaml":
		return c38YAML(n), ".yaml"
	default:
		return c38JSON(n), ".json"
	}
}
