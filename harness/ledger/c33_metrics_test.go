package ledger

import (
	"math"
	"runtime"
	"sync"
	"sync/atomic"
	"testing"

	"github.com/honeycombio/refinery/config"
	"github.com/honeycombio/refinery/logger"
	"github.com/honeycombio/refinery/metrics"
	"github.com/honeycombio/refinery/sample"
	"github.com/honeycombio/refinery/types"
	"github.com/honeycombio/refinery/verifharness/vkit"
	"github.com/prometheus/client_golang/prometheus"
	"pgregory.net/rapid"
)

// C33: the metrics store reports what was recorded.
//
// SUT: a real metrics.MultiMetrics, alone or with a real metrics.PromMetrics
// child (promauto registers against prometheus.DefaultRegisterer, which the
// harness points at a fresh private registry for every case). Recording calls
// come from the harness and from a real sample.DeterministicSampler (whose
// Start() performs the re-registration production performs whenever a sampler
// is created). Oracle: plain-map reference model, compared with Get() of every
// name after every step; in "conc" mode additionally goroutines run generated
// scripts released by a barrier, final values must equal the commutative sums
// and a poller must never see a counter decrease.

type c33Op struct {
	Op   string  `json:"op"` // reg inc count gauge up down store hist newsampler sample burst
	Name string  `json:"name,omitempty"`
	N    int64   `json:"n,omitempty"`
	V    float64 `json:"v,omitempty"`
}

type c33Case struct {
	Mode    string    `json:"mode"` // seq | conc
	Prom    bool      `json:"prom"`
	Ops     []c33Op   `json:"ops"`
	Scripts [][]c33Op `json:"scripts,omitempty"` // conc: one script per goroutine
}

const (
	c33Counter = "counter"
	c33Gauge   = "gauge"
	c33UpDown  = "updown"
	c33Hist    = "hist"
	c33Store   = "store"
	c33Unknown = "unknown-name"
)

// Names the sequential histories use. The deterministic* names are exactly the
// ones sample.newSamplerMetricNames("deterministic", ..) registers; the sampler
// *uses* "rulebased_num_dropped_by_drop_rule" style names unregistered, which
// is why use-without-register is part of the domain.
var (
	c33SeqCounters = []string{"c_a", "c_b", "deterministic_num_kept", "deterministic_num_dropped", "deterministicrulebased_num_dropped_by_drop_rule"}
	c33SeqGauges   = []string{"g_a", "g_b"}
	c33SeqUpDowns  = []string{"u_a", "u_b"}
	c33Hists       = []string{"h_a", "deterministic_sample_rate", "deterministic_sampler_key_cardinality"}
	c33Stores      = []string{"s_a", "s_b"}
	// only touched by concurrent scripts: always fresh (unregistered, unused) at the barrier
	c33FreshCounters = []string{"c_f0", "c_f1", "c_f2", "c_f3"}
	c33FreshUpDowns  = []string{"u_f0", "u_f1"}
	c33WorkerGauges  = []string{"g_w0", "g_w1", "g_w2", "g_w3", "g_w4", "g_w5", "g_w6", "g_w7"}
	c33SamplerNames  = []string{"deterministic_num_dropped", "deterministic_num_kept", "deterministic_sample_rate", "deterministic_sampler_key_cardinality", "deterministicrulebased_num_dropped_by_drop_rule"}
	c33TraceIDs      = []string{"t0", "t1", "t2", "t3", "t4", "t5", "t6", "t7"}
	c33Values        = []float64{0, 1, -1, 0.5, 42, 1e9, -3.25, 1e-9, 123456789.125}
	c33Counts        = []int64{0, 1, 2, 7, 1000, 1 << 32}

	c33AllNames []string
	c33Kind     = map[string]string{}
)

func init() {
	add := func(kind string, names []string) {
		for _, n := range names {
			c33Kind[n] = kind
			c33AllNames = append(c33AllNames, n)
		}
	}
	add(c33Counter, c33SeqCounters)
	add(c33Counter, c33FreshCounters)
	add(c33Gauge, c33SeqGauges)
	add(c33Gauge, c33WorkerGauges)
	add(c33UpDown, c33SeqUpDowns)
	add(c33UpDown, c33FreshUpDowns)
	add(c33Hist, c33Hists)
	add(c33Store, c33Stores)
	add(c33Unknown, []string{"never_used"})
}

func c33MetricType(kind string) metrics.MetricType {
	switch kind {
	case c33Counter:
		return metrics.Counter
	case c33Gauge:
		return metrics.Gauge
	case c33UpDown:
		return metrics.UpDown
	}
	return metrics.Histogram
}

func c33Join(lists ...[]string) []string {
	var out []string
	for _, l := range lists {
		out = append(out, l...)
	}
	return out
}

func genC33(t *rapid.T) c33Case {
	c := c33Case{Mode: "seq"}
	if rapid.IntRange(0, 3).Draw(t, "mode") == 0 {
		c.Mode = "conc"
	}
	c.Prom = rapid.Bool().Draw(t, "prom")
	registrable := c33Join(c33SeqCounters, c33SeqGauges, c33SeqUpDowns, c33Hists)
	seqOp := rapid.Custom(func(t *rapid.T) c33Op {
		k := rapid.IntRange(0, 20).Draw(t, "opkind")
		switch {
		case k <= 3:
			return c33Op{Op: "reg", Name: rapid.SampledFrom(registrable).Draw(t, "name")}
		case k <= 6:
			return c33Op{Op: "inc", Name: rapid.SampledFrom(c33SeqCounters).Draw(t, "name")}
		case k <= 8:
			return c33Op{Op: "count", Name: rapid.SampledFrom(c33SeqCounters).Draw(t, "name"), N: rapid.SampledFrom(c33Counts).Draw(t, "n")}
		case k <= 10:
			return c33Op{Op: "gauge", Name: rapid.SampledFrom(c33SeqGauges).Draw(t, "name"), V: rapid.SampledFrom(c33Values).Draw(t, "v")}
		case k <= 12:
			return c33Op{Op: "up", Name: rapid.SampledFrom(c33SeqUpDowns).Draw(t, "name")}
		case k <= 14:
			return c33Op{Op: "down", Name: rapid.SampledFrom(c33SeqUpDowns).Draw(t, "name")}
		case k == 15:
			return c33Op{Op: "store", Name: rapid.SampledFrom(c33Stores).Draw(t, "name"), V: rapid.SampledFrom(c33Values).Draw(t, "v")}
		case k == 16:
			return c33Op{Op: "hist", Name: rapid.SampledFrom(c33Hists).Draw(t, "name"), V: rapid.SampledFrom(c33Values).Draw(t, "v")}
		case k == 17:
			return c33Op{Op: "newsampler"}
		default:
			return c33Op{Op: "sample", Name: rapid.SampledFrom(c33TraceIDs).Draw(t, "trace")}
		}
	})
	maxOps := 40
	if c.Mode == "conc" {
		maxOps = 12
	}
	c.Ops = rapid.SliceOfN(seqOp, 0, maxOps).Draw(t, "ops")
	if c.Mode == "conc" {
		g := rapid.SampledFrom([]int{2, 4, 8}).Draw(t, "goroutines")
		// regWeight 0: no registration during the concurrent phase at all.
		regWeight := rapid.SampledFrom([]int{0, 0, 1, 2}).Draw(t, "regweight")
		ctrs := c33Join(c33SeqCounters[:2], c33FreshCounters)
		uds := c33Join(c33SeqUpDowns[:1], c33FreshUpDowns)
		scriptOp := rapid.Custom(func(t *rapid.T) c33Op {
			k := rapid.IntRange(0, 11+regWeight).Draw(t, "opkind")
			switch {
			case k <= 3:
				return c33Op{Op: "inc", Name: rapid.SampledFrom(ctrs).Draw(t, "name")}
			case k <= 5:
				return c33Op{Op: "count", Name: rapid.SampledFrom(ctrs).Draw(t, "name"), N: rapid.SampledFrom(c33Counts[:5]).Draw(t, "n")}
			case k <= 7:
				return c33Op{Op: "up", Name: rapid.SampledFrom(uds).Draw(t, "name")}
			case k <= 9:
				return c33Op{Op: "down", Name: rapid.SampledFrom(uds).Draw(t, "name")}
			case k == 10:
				return c33Op{Op: "gauge", V: rapid.SampledFrom(c33Values).Draw(t, "v")} // targets the goroutine's own gauge
			case k == 11:
				return c33Op{Op: "burst"} // first use of every fresh name, in order
			default:
				return c33Op{Op: "reg", Name: rapid.SampledFrom(c33Join(ctrs, uds)).Draw(t, "name")}
			}
		})
		for i := 0; i < g; i++ {
			s := rapid.SliceOfN(scriptOp, 1, 25).Draw(t, "script")
			if rapid.Bool().Draw(t, "burstfirst") {
				s = append([]c33Op{{Op: "burst"}}, s...)
			}
			c.Scripts = append(c.Scripts, s)
		}
	}
	return c
}

type c33Model struct {
	reg    map[string]bool
	used   map[string]bool
	ctr    map[string]uint64
	gauge  map[string]float64
	ud     map[string]int64
	st     map[string]float64
	stored map[string]bool
}

func (m *c33Model) want(name string) float64 {
	switch c33Kind[name] {
	case c33Counter:
		return float64(m.ctr[name])
	case c33Gauge:
		return m.gauge[name]
	case c33UpDown:
		return float64(m.ud[name])
	case c33Store:
		return m.st[name]
	}
	return 0
}

func (m *c33Model) resync(name string, got float64) {
	switch c33Kind[name] {
	case c33Counter:
		if got >= 0 {
			m.ctr[name] = uint64(got)
		}
	case c33Gauge:
		m.gauge[name] = got
	case c33UpDown:
		m.ud[name] = int64(got)
	case c33Store:
		m.st[name] = got
	}
}

func c33Same(a, b float64) bool { return math.Float64bits(a) == math.Float64bits(b) || a == b }

type c33SUT struct {
	mm      *metrics.MultiMetrics
	sampler *sample.DeterministicSampler
}

func newC33SUT(prom bool) *c33SUT {
	mm := metrics.NewMultiMetrics()
	if prom {
		// promauto registers with the package-level default registerer; a fresh
		// one per case gives every case a private registry.
		prometheus.DefaultRegisterer = prometheus.NewRegistry()
		pm := &metrics.PromMetrics{
			Logger: &logger.NullLogger{},
			// the invalid port makes the listener goroutine of Start() return at once
			Config: &config.MockConfig{GetPrometheusMetricsConfigVal: config.PrometheusMetricsConfig{Enabled: true, ListenAddr: "127.0.0.1:-1"}},
		}
		if err := pm.Start(); err != nil {
			panic(err)
		}
		mm.AddChild(pm)
	}
	return &c33SUT{mm: mm}
}

// apply runs one sequential op against SUT and model; returns the names it
// registered and the names it recorded to.
func (s *c33SUT) apply(op c33Op, m *c33Model) (registered, recorded []string) {
	switch op.Op {
	case "reg":
		s.mm.Register(metrics.Metadata{Name: op.Name, Type: c33MetricType(c33Kind[op.Name]), Unit: metrics.Dimensionless, Description: "verif " + op.Name})
		registered = []string{op.Name}
	case "inc":
		s.mm.Increment(op.Name)
		m.ctr[op.Name]++
		recorded = []string{op.Name}
	case "count":
		s.mm.Count(op.Name, op.N)
		m.ctr[op.Name] += uint64(op.N)
		recorded = []string{op.Name}
	case "gauge":
		s.mm.Gauge(op.Name, op.V)
		m.gauge[op.Name] = op.V
		recorded = []string{op.Name}
	case "up":
		s.mm.Up(op.Name)
		m.ud[op.Name]++
		recorded = []string{op.Name}
	case "down":
		s.mm.Down(op.Name)
		m.ud[op.Name]--
		recorded = []string{op.Name}
	case "store":
		s.mm.Store(op.Name, op.V)
		m.st[op.Name] = op.V
		m.stored[op.Name] = true
	case "hist":
		s.mm.Histogram(op.Name, op.V)
	case "newsampler":
		// what SamplerFactory does for every new deterministic sampler
		d := &sample.DeterministicSampler{Config: &config.DeterministicSamplerConfig{SampleRate: 2}, Logger: &logger.NullLogger{}, Metrics: s.mm}
		if err := d.Start(); err != nil {
			panic(err)
		}
		s.sampler = d
		registered = append(registered, c33SamplerNames...)
	case "sample":
		if s.sampler != nil {
			_, keep, _, _ := s.sampler.GetSampleRate(&types.Trace{TraceID: op.Name})
			n := "deterministic_num_dropped"
			if keep {
				n = "deterministic_num_kept"
			}
			m.ctr[n]++
			recorded = []string{n}
		}
	}
	for _, n := range registered {
		m.reg[n] = true
	}
	for _, n := range recorded {
		m.used[n] = true
	}
	return
}

func c33In(list []string, s string) bool {
	for _, x := range list {
		if x == s {
			return true
		}
	}
	return false
}

func execC33(c c33Case) vkit.Result {
	var res vkit.Result
	sut := newC33SUT(c.Prom)
	mm := sut.mm
	m := &c33Model{reg: map[string]bool{}, used: map[string]bool{}, ctr: map[string]uint64{}, gauge: map[string]float64{},
		ud: map[string]int64{}, st: map[string]float64{}, stored: map[string]bool{}}
	prev := map[string]float64{} // last observed counter values (monotonicity)
	hasPrev := map[string]bool{}

	probe := func(step int, op c33Op, registered, recorded []string) {
		for _, name := range c33AllNames {
			kind := c33Kind[name]
			got, ok := mm.Get(name)
			cause := func() string {
				switch {
				case c33In(registered, name) && got == 0:
					return "reset-by-register"
				case c33In(registered, name):
					return "changed-by-register"
				case c33In(recorded, name) || (op.Op == "store" && op.Name == name):
					return "wrong-after-" + op.Op
				default:
					return "changed-by-unrelated-" + op.Op
				}
			}
			switch kind {
			case c33Hist:
				continue // histograms are documented as not stored: don't-care
			case c33Unknown:
				if ok {
					res.Violate("C33/unknown-name/found", "step %d (%+v): Get(%q) = (%v,true) for a name never registered, recorded or stored", step, op, name, got)
				}
				continue
			case c33Store:
				if !m.stored[name] {
					if ok {
						res.Violate("C33/store/found-before-store", "step %d (%+v): Get(%q) = (%v,true) before any Store", step, op, name, got)
					}
					continue
				}
				if !ok || !c33Same(got, m.st[name]) {
					res.Violate("C33/store/"+cause(), "step %d (%+v): Get(%q) = (%v,%v), last stored %v", step, op, name, got, ok, m.st[name])
					m.resync(name, got)
				}
				continue
			}
			if !m.reg[name] && !m.used[name] {
				if ok {
					res.Violate("C33/"+kind+"/found-before-any-use", "step %d (%+v): Get(%q) = (%v,true) but the name was never registered nor recorded to", step, op, name, got)
				}
				continue
			}
			want := m.want(name)
			switch {
			case !ok && m.used[name]:
				after := "after-" + op.Op
				if c33In(registered, name) {
					after = "after-register"
				}
				res.Violate("C33/"+kind+"/not-found/"+after, "step %d (%+v): Get(%q) = (_,false) although values were recorded (want %v)", step, op, name, want)
			case !ok:
				res.Class("registered-unused-not-found") // don't-care
			case !c33Same(got, want):
				res.Violate("C33/"+kind+"/"+cause(), "step %d (%+v): Get(%q) = %v, reference %v (%s)", step, op, name, got, want, c33Explain(kind))
				m.resync(name, got)
			}
			if kind == c33Counter && ok {
				if hasPrev[name] && got < prev[name] && !c33In(registered, name) {
					res.Violate("C33/counter/decreased-after-"+op.Op, "step %d (%+v): Get(%q) went from %v to %v", step, op, name, prev[name], got)
				}
				prev[name], hasPrev[name] = got, true
			}
		}
	}

	for i, op := range c.Ops {
		// classify registrations by what they hit (measured on the reference)
		var targets []string
		if op.Op == "reg" {
			targets = []string{op.Name}
		} else if op.Op == "newsampler" {
			targets = c33SamplerNames
		}
		for _, n := range targets {
			if c33Kind[n] == c33Hist {
				continue
			}
			switch {
			case m.want(n) != 0:
				res.NonTrivial = true
				res.Class("register-of-nonzero-" + c33Kind[n])
				if !m.reg[n] {
					res.Class("late-register-after-use")
				}
				if op.Op == "newsampler" {
					res.Class("sampler-start-reregisters-nonzero")
				}
			case m.reg[n]:
				res.Class("repeat-register-of-zero")
			}
		}
		registered, recorded := sut.apply(op, m)
		probe(i, op, registered, recorded)
	}
	res.Class("mode=" + c.Mode)
	if c.Prom {
		res.Class("child=prometheus")
	} else {
		res.Class("child=none")
	}
	if c.Mode != "conc" || len(c.Scripts) == 0 {
		return res
	}

	// ---- concurrent phase -------------------------------------------------
	base := map[string]float64{}
	for _, name := range c33AllNames {
		base[name] = m.want(name)
	}
	addC := map[string]uint64{}
	addU := map[string]int64{}
	lastG := map[string]float64{}
	setG := map[string]bool{}
	regDuring := map[string]bool{}
	touched := map[string]bool{}
	bursts := 0
	for gi, script := range c.Scripts {
		for _, op := range script {
			switch op.Op {
			case "inc":
				addC[op.Name]++
				touched[op.Name] = true
			case "count":
				addC[op.Name] += uint64(op.N)
				touched[op.Name] = true
			case "up":
				addU[op.Name]++
				touched[op.Name] = true
			case "down":
				addU[op.Name]--
				touched[op.Name] = true
			case "gauge":
				n := c33WorkerGauges[gi%len(c33WorkerGauges)]
				lastG[n] = op.V
				setG[n] = true
				touched[n] = true
			case "burst":
				bursts++
				for _, n := range c33FreshCounters {
					addC[n]++
					touched[n] = true
				}
				for _, n := range c33FreshUpDowns {
					addU[n]++
					touched[n] = true
				}
			case "reg":
				regDuring[op.Name] = true
				touched[op.Name] = true
			}
		}
	}
	for n := range regDuring {
		if base[n] != 0 {
			res.NonTrivial = true
			res.Class("conc-register-of-nonzero")
		}
	}
	if len(regDuring) > 0 {
		res.Class("conc-with-registration")
	} else {
		res.Class("conc-without-registration")
	}
	if bursts >= 2 {
		res.Class("conc-fresh-name-contention")
		res.NonTrivial = true
	}

	var ready atomic.Int32
	var done atomic.Bool
	var wg sync.WaitGroup
	g := int32(len(c.Scripts))
	for gi, script := range c.Scripts {
		wg.Add(1)
		go func(gi int, script []c33Op) {
			defer wg.Done()
			ready.Add(1)
			for ready.Load() < g+1 { // barrier (workers + poller)
				runtime.Gosched()
			}
			for _, op := range script {
				switch op.Op {
				case "inc":
					mm.Increment(op.Name)
				case "count":
					mm.Count(op.Name, op.N)
				case "up":
					mm.Up(op.Name)
				case "down":
					mm.Down(op.Name)
				case "gauge":
					mm.Gauge(c33WorkerGauges[gi%len(c33WorkerGauges)], op.V)
				case "burst":
					for _, n := range c33FreshCounters {
						mm.Increment(n)
					}
					for _, n := range c33FreshUpDowns {
						mm.Up(n)
					}
				case "reg":
					mm.Register(metrics.Metadata{Name: op.Name, Type: c33MetricType(c33Kind[op.Name]), Unit: metrics.Dimensionless, Description: "verif " + op.Name})
				}
				runtime.Gosched()
			}
		}(gi, script)
	}
	type dec struct{ from, to float64 }
	decreases := map[string]dec{}
	polls := 0
	var pwg sync.WaitGroup
	pwg.Add(1)
	go func() {
		defer pwg.Done()
		last := map[string]float64{}
		for n, v := range prev {
			last[n] = v
		}
		ready.Add(1)
		for {
			stop := done.Load() // read before the pass: one full pass happens after the workers finished
			for _, n := range c33AllNames {
				if c33Kind[n] != c33Counter {
					continue
				}
				v, ok := mm.Get(n)
				if !ok {
					continue
				}
				if l, seen := last[n]; seen && v < l {
					if _, dup := decreases[n]; !dup {
						decreases[n] = dec{l, v}
					}
				}
				last[n] = v
			}
			polls++
			if stop {
				return
			}
			runtime.Gosched()
		}
	}()
	wg.Wait()
	done.Store(true)
	pwg.Wait()

	suffix := func(n string) string {
		if regDuring[n] {
			return "/register-during-use"
		}
		return ""
	}
	for _, name := range c33AllNames {
		kind := c33Kind[name]
		got, ok := mm.Get(name)
		if !touched[name] {
			// untouched by the concurrent phase: must read exactly as before
			switch kind {
			case c33Hist, c33Unknown:
			default:
				known := m.reg[name] || m.used[name] || m.stored[name]
				if known && ok && !c33Same(got, base[name]) {
					res.Violate("C33/conc/"+kind+"/changed-untouched", "Get(%q) = %v after the concurrent phase, %v before; no script touched it", name, got, base[name])
				}
				if !known && ok {
					res.Violate("C33/conc/"+kind+"/found-before-any-use", "Get(%q) = (%v,true), never registered nor used", name, got)
				}
			}
			continue
		}
		switch kind {
		case c33Counter:
			want := base[name] + float64(addC[name])
			if addC[name] > 0 && !ok {
				res.Violate("C33/conc/counter/not-found"+suffix(name), "Get(%q) not found after %d concurrent increments", name, addC[name])
			} else if ok && got != want {
				res.Violate("C33/conc/counter/sum-mismatch"+suffix(name), "Get(%q) = %v after the concurrent phase, want %v (= %v before + %d added by %d goroutines)", name, got, want, base[name], addC[name], len(c.Scripts))
			}
		case c33UpDown:
			want := base[name] + float64(addU[name])
			if ok && got != want {
				res.Violate("C33/conc/updown/sum-mismatch"+suffix(name), "Get(%q) = %v after the concurrent phase, want %v (= %v before %+d)", name, got, want, base[name], addU[name])
			}
		case c33Gauge:
			if setG[name] && (!ok || !c33Same(got, lastG[name])) {
				res.Violate("C33/conc/gauge/last-value-lost", "Get(%q) = (%v,%v), its only writer last set %v", name, got, ok, lastG[name])
			}
		}
	}
	for _, name := range c33AllNames { // deterministic order
		if d, ok := decreases[name]; ok {
			res.Violate("C33/conc/counter/decrease-observed"+suffix(name), "poller saw Get(%q) go from %v to %v", name, d.from, d.to)
		}
	}
	if polls > 1 {
		res.Class("conc-poller-overlapped")
	}
	return res
}

func c33Explain(kind string) string {
	switch kind {
	case c33Counter:
		return "sum of increments since start"
	case c33Gauge:
		return "last value set"
	case c33UpDown:
		return "ups minus downs"
	}
	return "last stored"
}

func TestC33(t *testing.T) {
	vkit.Run(t, vkit.Spec[c33Case]{
		ID:   "C33",
		Rule: "rapid-generated histories of Register (repeated, late, after use, via a real DeterministicSampler.Start) / Increment / Count / Gauge / Up / Down / Store / Histogram on a real MultiMetrics (with and without a real PromMetrics child); Get() of every name compared with a plain-map reference after every step. mode=conc: after a sequential prefix, 2/4/8 goroutines run generated scripts released by a barrier while a poller reads counters; final values must equal the sums, no counter may be seen decreasing. Non-trivial: a Register of a name whose reference value is non-zero, or >=2 goroutines making first use of the same fresh names at the barrier. Distinct = distinct case JSON.",
		Assumptions: []string{
			"a metric name has one kind for its whole life (components never register one name under two kinds); Store names are disjoint from metric names",
			"Count is called with n >= 0 and sums stay far below 2^53; gauge values are finite",
			"Get() of a registered-but-never-recorded name may be (0,true) or (0,false); histograms are not read back",
			"prometheus.DefaultRegisterer may be replaced per case to give PromMetrics a private registry",
		},
		Gen:  genC33,
		Exec: execC33,
	})
}
