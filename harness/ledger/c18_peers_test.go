package ledger

import (
	"context"
	"fmt"
	"runtime/debug"
	"sort"
	"strings"
	"sync"
	"testing"
	"testing/synctest"
	"time"

	"github.com/honeycombio/refinery/config"
	"github.com/honeycombio/refinery/internal/peer"
	"github.com/honeycombio/refinery/pubsub"
	"github.com/honeycombio/refinery/verifharness/vkit"
	"github.com/jonboulle/clockwork"
	"pgregory.net/rapid"
)

// C18: Redis peer membership converges to the live, publishing nodes; membership
// messages round-trip exactly.
//
// SUT: real peer.RedisPubsubPeers instances (one per node incarnation) sharing
// one harness-controlled pubsub.PubSub inside one synctest bubble (the TTL map
// and the refresh tickers run on the bubble's virtual clock). The bus decides
// when and in which order published messages reach the subscribers and drops
// everything a crashed node says.
//
//   mode=cluster  history of start / graceful stop / crash with delayed and
//                 reordered deliveries; oracle: from (last membership change +
//                 PeerEntryTimeout + max refresh interval + max delivery lag)
//                 on, and for a further TTL, GetPeers() of every running node
//                 is exactly the multiset of addresses of the running nodes.
//   mode=codec    one node plus raw R/U messages written by the harness from the
//                 documented wire format; oracle: reference map id -> (address,
//                 expiry) vs GetPeers(); the node's own messages must parse (with
//                 the harness's parser) to its own address and instance ID.

const (
	c18TTL        = 10 * time.Second        // peer.PeerEntryTimeout (asserted equal at run time)
	c18MaxRefresh = 3600 * time.Millisecond // refreshCacheInterval + 20% jitter, exclusive upper end
	c18Port       = "8081"
)

type c18Op struct {
	Op   string `json:"op"` // cluster: none | start | stop | crash ; codec: inject | advance
	Slot int    `json:"slot,omitempty"`
	// cluster: a stop with Aim is deferred to the step right after the node's next
	// refresh publish; that R is held back one step and the batch containing it
	// and the U is delivered in reverse, so the U overtakes the R.
	Aim bool `json:"aim,omitempty"`
	// cluster: bit (j mod 8) set = the j-th message published during this step is
	// delivered one step later than normal.
	DelayBits int `json:"delaybits,omitempty"`
	// cluster: order in which the batch due at the end of this step is delivered:
	// 0 as published, 1 reversed, 2 rotated by one, 3 adjacent pairs swapped.
	Perm int `json:"perm,omitempty"`
	// codec
	Action string `json:"action,omitempty"` // R | U
	Addr   string `json:"addr,omitempty"`
	ID     string `json:"id,omitempty"`
	Ms     int    `json:"ms,omitempty"`
}

type c18Case struct {
	Mode            string  `json:"mode"` // cluster | codec
	StepMs          int     `json:"stepms,omitempty"`
	Slots           int     `json:"slots,omitempty"`
	Initial         int     `json:"initial,omitempty"`
	Ops             []c18Op `json:"ops"`
	SettleDelayBits int     `json:"settledelaybits,omitempty"`
	SettlePerm      int     `json:"settleperm,omitempty"`
}

var (
	c18CodecIDs   = []string{"1", "a1", "b1", "a", "ab", "0000beef", "a,1", ",", "R", "Ua,b", "é1", " "}
	c18CodecAddrs = []string{"http://node-9:8081", "http://node-0:8081", "x", "", "R", "http://[::1]:8081", "http://höst:1", "a b", "http://node-9:8081 "}
)

func genC18(t *rapid.T) c18Case {
	if rapid.IntRange(0, 3).Draw(t, "mode") == 0 {
		c := c18Case{Mode: "codec"}
		op := rapid.Custom(func(t *rapid.T) c18Op {
			k := rapid.IntRange(0, 9).Draw(t, "opkind")
			if k <= 2 {
				return c18Op{Op: "advance", Ms: rapid.SampledFrom([]int{0, 1, 100, 1000, 2500, 3000, 4000, 6000, 9500}).Draw(t, "ms")}
			}
			o := c18Op{Op: "inject", Action: "R"}
			if k >= 8 {
				o.Action = "U"
			}
			if rapid.IntRange(0, 3).Draw(t, "idsrc") == 0 {
				o.ID = rapid.StringN(1, 12, -1).Draw(t, "id")
			} else {
				o.ID = rapid.SampledFrom(c18CodecIDs).Draw(t, "id")
			}
			if rapid.IntRange(0, 3).Draw(t, "addrsrc") == 0 {
				o.Addr = strings.ReplaceAll(rapid.StringN(0, 20, -1).Draw(t, "addr"), ",", ";")
			} else {
				o.Addr = rapid.SampledFrom(c18CodecAddrs).Draw(t, "addr")
			}
			return o
		})
		c.Ops = rapid.SliceOfN(op, 1, 30).Draw(t, "ops")
		return c
	}
	c := c18Case{Mode: "cluster"}
	c.StepMs = rapid.SampledFrom([]int{250, 500, 1000}).Draw(t, "stepms")
	c.Slots = rapid.IntRange(2, 4).Draw(t, "slots")
	c.Initial = rapid.IntRange(1, c.Slots).Draw(t, "initial")
	bits := rapid.Custom(func(t *rapid.T) int {
		switch rapid.IntRange(0, 3).Draw(t, "bitskind") {
		case 0:
			return 0
		case 1:
			return 255
		}
		return rapid.IntRange(0, 255).Draw(t, "bits")
	})
	op := rapid.Custom(func(t *rapid.T) c18Op {
		o := c18Op{Op: "none", DelayBits: bits.Draw(t, "delaybits"), Perm: rapid.IntRange(0, 3).Draw(t, "perm")}
		switch k := rapid.IntRange(0, 9).Draw(t, "opkind"); {
		case k <= 3:
		case k <= 5:
			o.Op = "start"
		case k <= 7:
			o.Op = "stop"
			o.Aim = rapid.Bool().Draw(t, "aim")
		default:
			o.Op = "crash"
		}
		if o.Op != "none" {
			o.Slot = rapid.IntRange(0, c.Slots-1).Draw(t, "slot")
		}
		return o
	})
	c.Ops = rapid.SliceOfN(op, 0, 30).Draw(t, "ops")
	c.SettleDelayBits = bits.Draw(t, "settledelaybits")
	c.SettlePerm = rapid.IntRange(0, 3).Draw(t, "settleperm")
	return c
}

// ---- the controllable bus ---------------------------------------------------

type c18Inc struct { // one node incarnation
	slot    int
	id      string
	addr    string
	p       *peer.RedisPubsubPeers
	done    chan struct{}
	crashed bool
	sub     *c18Sub
	// bookkeeping
	lastPubStep int // step of the last R it published (-1 none)
	pendingAim  bool
}

type c18Msg struct {
	from *c18Inc // nil = written by the harness
	text string
	due  int
	op   *c18Op // codec: the inject op it came from
}

type c18Sub struct {
	owner  *c18Inc
	cb     pubsub.SubscriptionCallback
	closed bool
	// per publisher incarnation: has a U already been delivered to this subscriber
	sawU map[*c18Inc]bool
}

func (s *c18Sub) Close() { s.closed = true }

type c18Bus struct {
	mu        sync.Mutex
	queue     []c18Msg
	subs      []*c18Sub
	step      int
	delayBits int
	seq       int
	published []c18Msg // everything nodes published (for the own-message codec check)
	reordered bool     // some subscriber got an R of an incarnation after that incarnation's U
	delayed   int
	topicSeen map[string]bool
}

// c18NodePS is the pubsub.PubSub one node sees.
type c18NodePS struct {
	bus   *c18Bus
	owner *c18Inc
}

var _ pubsub.PubSub = (*c18NodePS)(nil)

func (ps *c18NodePS) Start() error                    { return nil }
func (ps *c18NodePS) Stop() error                     { return nil }
func (ps *c18NodePS) Close()                          {}
func (ps *c18NodePS) FormatTopic(topic string) string { return "verifcluster:" + topic }

func (ps *c18NodePS) Publish(ctx context.Context, topic, message string) error {
	b := ps.bus
	b.mu.Lock()
	defer b.mu.Unlock()
	b.topicSeen[topic] = true
	if ps.owner.crashed {
		return nil // a dead process says nothing
	}
	delay := (b.delayBits >> (b.seq % 8)) & 1
	b.seq++
	if ps.owner.pendingAim { // aimed stop: hold the refresh back one step, let the unregister through
		if strings.HasPrefix(message, "R") {
			delay = 1
		} else {
			delay = 0
		}
	}
	if delay == 1 {
		b.delayed++
	}
	m := c18Msg{from: ps.owner, text: message, due: b.step + delay}
	b.queue = append(b.queue, m)
	b.published = append(b.published, m)
	if strings.HasPrefix(message, "R") {
		ps.owner.lastPubStep = b.step
	}
	return nil
}

func (ps *c18NodePS) Subscribe(ctx context.Context, topic string, cb pubsub.SubscriptionCallback) pubsub.Subscription {
	b := ps.bus
	b.mu.Lock()
	defer b.mu.Unlock()
	b.topicSeen[topic] = true
	s := &c18Sub{owner: ps.owner, cb: cb, sawU: map[*c18Inc]bool{}}
	ps.owner.sub = s
	b.subs = append(b.subs, s)
	return s
}

// deliver hands every message due at the end of step k to every open
// subscription, in the order selected by perm. Called from the harness
// goroutine after synctest.Wait(), so no node goroutine is running.
func (b *c18Bus) deliver(k, perm int, onDeliver func(m c18Msg)) int {
	b.mu.Lock()
	var due, rest []c18Msg
	for _, m := range b.queue {
		if m.due <= k {
			due = append(due, m)
		} else {
			rest = append(rest, m)
		}
	}
	b.queue = rest
	subs := append([]*c18Sub(nil), b.subs...)
	b.mu.Unlock()
	switch perm {
	case 1:
		for i, j := 0, len(due)-1; i < j; i, j = i+1, j-1 {
			due[i], due[j] = due[j], due[i]
		}
	case 2:
		if len(due) > 1 {
			due = append(due[1:], due[0])
		}
	case 3:
		for i := 0; i+1 < len(due); i += 2 {
			due[i], due[i+1] = due[i+1], due[i]
		}
	}
	for _, m := range due {
		if onDeliver != nil {
			onDeliver(m)
		}
		for _, s := range subs {
			if s.closed {
				continue
			}
			if m.from != nil {
				if strings.HasPrefix(m.text, "U") {
					s.sawU[m.from] = true
				} else if s.sawU[m.from] {
					b.reordered = true
				}
			}
			s.cb(context.Background(), m.text)
		}
	}
	return len(due)
}

// c18Parse is the harness's own reading of the documented wire format
// "R<address>,<id>" / "U<address>,<id>" (addresses never contain a comma).
func c18Parse(msg string) (action, addr, id string, ok bool) {
	if len(msg) < 2 || (msg[0] != 'R' && msg[0] != 'U') {
		return "", "", "", false
	}
	body := msg[1:]
	i := strings.IndexByte(body, ',')
	if i < 0 {
		return "", "", "", false
	}
	return msg[:1], body[:i], body[i+1:], true
}

func c18Addr(slot int) string { return fmt.Sprintf("http://node-%d:%s", slot, c18Port) }

func c18NewInc(bus *c18Bus, slot, incarnation int) (*c18Inc, error) {
	inc := &c18Inc{slot: slot, addr: c18Addr(slot), done: make(chan struct{}), lastPubStep: -1}
	// production: 8 hex digits derived from a fresh UUID per process
	inc.id = fmt.Sprintf("%04x%04x", 0xa000+slot, incarnation)
	inc.p = &peer.RedisPubsubPeers{
		Config: &config.MockConfig{
			GetPeerListenAddrVal: "0.0.0.0:" + c18Port,
			RedisIdentifier:      fmt.Sprintf("node-%d", slot),
			PeerTimeout:          time.Second,
		},
		PubSub:     &c18NodePS{bus: bus, owner: inc},
		Clock:      clockwork.NewRealClock(), // virtual inside the bubble
		InstanceID: inc.id,
		Done:       inc.done,
	}
	if err := inc.p.Start(); err != nil {
		return nil, err
	}
	if err := inc.p.Ready(); err != nil {
		return nil, err
	}
	return inc, nil
}

func c18Sorted(l []string) []string {
	out := append([]string(nil), l...)
	sort.Strings(out)
	return out
}

// c18T is the *testing.T of the running TestC18 (synctest.Test needs one).
var c18T *testing.T

func c18Bubble(f func()) {
	var pv any
	var stack string
	synctest.Test(c18T, func(*testing.T) {
		defer func() {
			if p := recover(); p != nil {
				pv = p
				stack = string(debug.Stack())
			}
		}()
		f()
	})
	if pv != nil {
		panic(fmt.Sprintf("panic inside bubble: %v\n%s", pv, stack))
	}
}

// ---- observations (filled inside the bubble, judged outside) ------------------

type c18Deviation struct {
	Phase string // "at-bound" | "after-convergence"
	Step  int
	Node  string
	Got   []string
	Want  []string
	Err   string
}

type c18Obs struct {
	deviations   []c18Deviation
	ownMalformed []string
	startErr     string
	crashes      int
	stops        int
	starts       int
	reordered    bool
	delayed      int
	checkedSteps int
	runningAtEnd int
	lastChange   int
	topics       int
	// codec
	codecMismatch []string
	boundarySkips int
	injected      int
	expiredSeen   bool
}

func c18RunCluster(c c18Case) c18Obs {
	var obs c18Obs
	step := time.Duration(c.StepMs) * time.Millisecond
	c18Bubble(func() {
		bus := &c18Bus{topicSeen: map[string]bool{}}
		running := map[int]*c18Inc{}
		incarnations := 0
		var all []*c18Inc
		start := func(slot int) bool {
			if running[slot] != nil {
				return false
			}
			inc, err := c18NewInc(bus, slot, incarnations)
			incarnations++
			if err != nil {
				obs.startErr = err.Error()
				return false
			}
			running[slot] = inc
			all = append(all, inc)
			obs.starts++
			return true
		}
		halt := func(slot int, crash bool) bool {
			inc := running[slot]
			if inc == nil {
				return false
			}
			if crash {
				bus.mu.Lock()
				inc.crashed = true
				bus.mu.Unlock()
				inc.sub.Close()
				obs.crashes++
			} else {
				obs.stops++
			}
			close(inc.done) // graceful: the refresh goroutine publishes U and ends
			synctest.Wait()
			inc.sub.Close() // the process is gone afterwards
			delete(running, slot)
			return true
		}
		for i := 0; i < c.Initial && i < c.Slots; i++ {
			start(i)
		}
		lastChange := 0
		boundSteps := int((c18TTL+c18MaxRefresh+step-1)/step) + 3 // + max delivery lag (2 steps) + 1 step
		watchSteps := int((c18TTL+time.Second+step-1) / step)
		converged := false
		for k := 0; ; k++ {
			inHistory := k < len(c.Ops)
			for slot := 0; slot < c.Slots; slot++ { // an aimed stop still waiting for its node's refresh extends the history
				if inc := running[slot]; inc != nil && inc.pendingAim {
					inHistory = true
				}
			}
			op := c18Op{Op: "none", DelayBits: c.SettleDelayBits, Perm: c.SettlePerm}
			if k < len(c.Ops) {
				op = c.Ops[k]
			}
			bus.mu.Lock()
			bus.step, bus.delayBits, bus.seq = k, op.DelayBits, 0
			bus.mu.Unlock()
			// aimed stops whose node refreshed during the previous step
			aimFired := false
			for slot := 0; slot < c.Slots; slot++ {
				if inc := running[slot]; inc != nil && inc.pendingAim && inc.lastPubStep == k-1 {
					if halt(slot, false) {
						lastChange = k
						aimFired = true
					}
				}
			}
			changed := false
			switch op.Op {
			case "start":
				changed = start(op.Slot)
			case "stop":
				if op.Aim {
					if inc := running[op.Slot]; inc != nil {
						inc.pendingAim = true
					}
				} else {
					changed = halt(op.Slot, false)
				}
			case "crash":
				changed = halt(op.Slot, true)
			}
			if changed {
				lastChange = k
			}
			time.Sleep(step)
			synctest.Wait()
			perm := op.Perm
			if aimFired {
				perm = 1 // this batch holds the held-back R and the U: deliver it reversed
			}
			bus.deliver(k, perm, nil)
			synctest.Wait()
			if inHistory {
				continue
			}
			// settle / watch phase: observe at the end of step k
			if k+1 < lastChange+boundSteps {
				continue
			}
			var want []string
			for slot := 0; slot < c.Slots; slot++ {
				if running[slot] != nil {
					want = append(want, running[slot].addr)
				}
			}
			want = c18Sorted(want)
			phase := "at-bound"
			if converged {
				phase = "after-convergence"
			}
			okAll := true
			for slot := 0; slot < c.Slots; slot++ {
				inc := running[slot]
				if inc == nil {
					continue
				}
				got, err := inc.p.GetPeers()
				got = c18Sorted(got)
				if err != nil || strings.Join(got, "\x00") != strings.Join(want, "\x00") {
					okAll = false
					if len(obs.deviations) < 4 {
						d := c18Deviation{Phase: phase, Step: k, Node: inc.addr + "#" + inc.id, Got: got, Want: want}
						if err != nil {
							d.Err = err.Error()
						}
						obs.deviations = append(obs.deviations, d)
					}
				}
			}
			obs.checkedSteps++
			if okAll {
				converged = true
			}
			if k+1 >= lastChange+boundSteps+watchSteps || len(obs.deviations) > 0 {
				break
			}
		}
		obs.lastChange = lastChange
		obs.runningAtEnd = len(running)
		// every message a node published must read back as (its address, its id)
		for _, m := range bus.published {
			a, addr, id, ok := c18Parse(m.text)
			if !ok || addr != m.from.addr || id != m.from.id || (a != "R" && a != "U") {
				if len(obs.ownMalformed) < 3 {
					obs.ownMalformed = append(obs.ownMalformed, fmt.Sprintf("%q published by %s#%s", m.text, m.from.addr, m.from.id))
				}
			}
		}
		obs.reordered = bus.reordered
		obs.delayed = bus.delayed
		obs.topics = len(bus.topicSeen)
		// stop everything before the bubble ends
		for _, inc := range all {
			if running[inc.slot] == inc {
				bus.mu.Lock()
				inc.crashed = true
				bus.mu.Unlock()
				close(inc.done)
			}
		}
		synctest.Wait()
	})
	return obs
}

func c18RunCodec(c c18Case) c18Obs {
	var obs c18Obs
	c18Bubble(func() {
		bus := &c18Bus{topicSeen: map[string]bool{}}
		inc, err := c18NewInc(bus, 0, 0)
		if err != nil {
			obs.startErr = err.Error()
			return
		}
		type ent struct {
			addr string
			exp  time.Time
		}
		model := map[string]ent{inc.id: {inc.addr, time.Now().Add(c18TTL)}}
		onDeliver := func(m c18Msg) {
			var action, addr, id string
			if m.op != nil { // written by the harness: the op itself is the truth, no parser involved
				action, addr, id = m.op.Action, m.op.Addr, m.op.ID
			} else {
				var ok bool
				action, addr, id, ok = c18Parse(m.text)
				if !ok || addr != inc.addr || id != inc.id {
					if len(obs.ownMalformed) < 3 {
						obs.ownMalformed = append(obs.ownMalformed, fmt.Sprintf("%q published by %s#%s", m.text, inc.addr, inc.id))
					}
					return
				}
			}
			if action == "R" {
				model[id] = ent{addr, time.Now().Add(c18TTL)}
			} else {
				delete(model, id)
			}
		}
		for k := range c.Ops {
			op := &c.Ops[k]
			bus.mu.Lock()
			bus.step, bus.delayBits, bus.seq = k, 0, 0
			bus.mu.Unlock()
			switch op.Op {
			case "inject":
				// the documented wire format, written out by hand
				text := op.Action + op.Addr + "," + op.ID
				bus.mu.Lock()
				bus.queue = append(bus.queue, c18Msg{text: text, due: k, op: op})
				bus.mu.Unlock()
				obs.injected++
			case "advance":
				time.Sleep(time.Duration(op.Ms) * time.Millisecond)
			}
			synctest.Wait()
			bus.deliver(k, 0, onDeliver)
			synctest.Wait()
			now := time.Now()
			var want []string
			boundary := false
			for _, e := range model {
				switch {
				case e.exp.After(now):
					want = append(want, e.addr)
				case e.exp.Equal(now):
					boundary = true
				default:
					obs.expiredSeen = true
				}
			}
			if boundary {
				obs.boundarySkips++ // the exact expiry instant is C32's business
				continue
			}
			if len(want) == 0 {
				want = []string{inc.addr} // documented: never an empty list
			}
			want = c18Sorted(want)
			got, err := inc.p.GetPeers()
			got = c18Sorted(got)
			if err != nil || strings.Join(got, "\x00") != strings.Join(want, "\x00") {
				if len(obs.codecMismatch) < 1 {
					obs.codecMismatch = append(obs.codecMismatch, fmt.Sprintf("after op %d (%+v): GetPeers() = %q (err %v), reference %q", k, *op, got, err, want))
					// classify: does the list contain a string nobody ever sent?
					known := map[string]bool{inc.addr: true}
					for i := 0; i <= k; i++ {
						if c.Ops[i].Op == "inject" {
							known[c.Ops[i].Addr] = true
						}
					}
					for _, g := range got {
						if !known[g] {
							obs.codecMismatch = append(obs.codecMismatch, "corrupted")
							break
						}
					}
				}
				break
			}
		}
		bus.mu.Lock()
		inc.crashed = true
		bus.mu.Unlock()
		close(inc.done)
		synctest.Wait()
	})
	return obs
}

func execC18(c c18Case) vkit.Result {
	var res vkit.Result
	if peer.PeerEntryTimeout != c18TTL {
		res.Violate("harness/c18-ttl-constant", "peer.PeerEntryTimeout is %v, the harness assumes %v", peer.PeerEntryTimeout, c18TTL)
		return res
	}
	res.Class("mode=" + c.Mode)
	if c.Mode == "codec" {
		obs := c18RunCodec(c)
		if obs.startErr != "" {
			res.Violate("harness/c18-start", "node did not start: %s", obs.startErr)
			return res
		}
		for _, m := range obs.ownMalformed {
			res.Violate("C18/codec/own-message-malformed", "%s does not read back as its own address and instance ID", m)
		}
		if len(obs.codecMismatch) > 0 {
			sig := "C18/codec/membership-mismatch"
			if len(obs.codecMismatch) > 1 {
				sig = "C18/codec/address-corrupted"
			}
			res.Violate(sig, "%s", obs.codecMismatch[0])
		}
		if obs.boundarySkips > 0 {
			res.Class("codec-probe-at-exact-expiry-skipped")
		}
		if obs.expiredSeen {
			res.Class("codec-entry-expired")
		}
		ids := map[string]bool{}
		for _, op := range c.Ops {
			if op.Op == "inject" {
				ids[op.ID] = true
			}
		}
		res.NonTrivial = len(ids) >= 2
		return res
	}
	obs := c18RunCluster(c)
	if obs.startErr != "" {
		res.Violate("harness/c18-start", "node did not start: %s", obs.startErr)
		return res
	}
	for _, m := range obs.ownMalformed {
		res.Violate("C18/cluster/own-message-malformed", "%s does not read back as its own address and instance ID", m)
	}
	for _, d := range obs.deviations {
		kind := c18Classify(d)
		phase := "not-converged"
		if d.Phase == "after-convergence" {
			phase = "diverged-after-convergence"
		}
		res.Violate("C18/cluster/"+phase+"/"+kind, "end of step %d (%v after the last membership change at step %d; bound %v): node %s has peers %q, running nodes are %q %s",
			d.Step, time.Duration(d.Step+1-obs.lastChange)*time.Duration(c.StepMs)*time.Millisecond, obs.lastChange,
			c18TTL+c18MaxRefresh+3*time.Duration(c.StepMs)*time.Millisecond, d.Node, d.Got, d.Want, d.Err)
		break
	}
	if obs.crashes > 0 {
		res.Class("with-crash")
	}
	if obs.reordered {
		res.Class("R-delivered-after-U-of-same-node")
	}
	if obs.delayed > 0 {
		res.Class("with-delayed-messages")
	}
	if obs.stops > 0 {
		res.Class("with-graceful-stop")
	}
	if obs.starts > c.Initial {
		res.Class("with-late-start-or-restart")
	}
	res.Class(fmt.Sprintf("running-at-end=%d", obs.runningAtEnd))
	res.NonTrivial = obs.runningAtEnd >= 1 && (obs.crashes > 0 || obs.reordered)
	return res
}

func c18Classify(d c18Deviation) string {
	if d.Err != "" {
		return "getpeers-error"
	}
	want := map[string]int{}
	for _, w := range d.Want {
		want[w]++
	}
	got := map[string]int{}
	for _, g := range d.Got {
		got[g]++
	}
	for g := range got {
		if !strings.HasPrefix(g, "http://node-") || !strings.HasSuffix(g, ":"+c18Port) {
			return "unknown-address"
		}
	}
	for w := range want {
		if got[w] == 0 {
			return "missing-live-node"
		}
	}
	for g, n := range got {
		if want[g] == 0 {
			return "lists-dead-node"
		}
		if n > 1 {
			return "duplicate-address"
		}
	}
	return "other"
}

func TestC18(t *testing.T) {
	c18T = t
	vkit.Run(t, vkit.Spec[c18Case]{
		ID:   "C18",
		Rule: "mode=cluster: 2-4 node slots, real RedisPubsubPeers per incarnation on one harness bus in a synctest bubble; generated history (one event per step of 250/500/1000 ms) of start / graceful stop (optionally aimed right after the node's refresh) / crash, per-step delay bits (a message may arrive one step late) and a delivery permutation per batch, faults continue while settling; from last change + 10 s + 3.6 s + 3 steps on and for a further 11 s every running node's GetPeers() must be exactly the running nodes' addresses. mode=codec: one node plus harness-written R/U messages over generated addresses (no comma) and ids; GetPeers() vs reference map after every op; every message a node publishes must parse to its own address and id. Non-trivial: cluster history with a crash or an R delivered after the same node's U (and >=1 node running at the end); codec case with >=2 distinct ids. Distinct = distinct case JSON.",
		Assumptions: []string{
			"no message of a live node is lost; a message reaches all subscribers (including its sender) at most 2 steps after it was published; a crashed node's messages are all dropped, including its unregister",
			"the bound adds the bus's maximum delivery lag (2 steps) and one observation step to PeerEntryTimeout + the maximum (jittered) refresh interval of 3.6 s",
			"the refresh jitter comes from the global math/rand and is not controlled; verdicts do not depend on it",
			"peer lists are compared as multisets of addresses; list order is not part of this property",
			"addresses of running nodes are distinct; a restarted node keeps its address and gets a new instance ID",
			"codec: IDs are non-empty; probes that fall on the exact expiry instant of an entry are skipped (C32 covers that instant)",
		},
		Gen:  genC18,
		Exec: execC18,
	})
}
