//go:build verif

package ledger

import (
	"errors"
	"fmt"
	"strings"
	"testing"
	"time"

	"github.com/honeycombio/refinery/agent"
	"github.com/honeycombio/refinery/verifharness/vkit"
	"github.com/jonboulle/clockwork"
	"github.com/open-telemetry/opamp-go/client"
	"github.com/open-telemetry/opamp-go/client/types"
	"github.com/open-telemetry/opamp-go/protobufs"
	"go.opentelemetry.io/collector/pdata/pmetric"
	"pgregory.net/rapid"
)

// C34: usage reports neither lose nor double-count usage.
//
// SUT: the agent's real usageTracker driven through the agent's real
// sendUsageReport (agent/verif_hooks_c34.go builds an Agent literal around a
// harness-supplied OpAMP client, as agent_test.go does). The client is scripted
// per attempt: every SendCustomMessage is answered accept / reject / pending
// (so pending>accept, pending>reject and pending>pending all occur).
// Oracle: a ledger. Every accepted payload is decoded with pdata's JSON
// unmarshaler and added per signal; after every accepted report everything that
// had been sampled before that report was generated must have been delivered
// exactly once; no data point is negative; "no data to report" is only allowed
// when nothing is waiting.

type c34Op struct {
	Op      string  `json:"op"` // grow | tick | growtick | report
	Signal  string  `json:"signal,omitempty"`
	D       int64   `json:"d,omitempty"`
	// report: the client's answer to each successive SendCustomMessage of this
	// report: accept | reject | pending (an answer after a terminal one is unused;
	// calls beyond the list are rejected).
	Replies []string `json:"replies,omitempty"`
	// Outcome is the older spelling kept for replay files: ok | pending-ok | pending-fail | fail
	Outcome string `json:"outcome,omitempty"`
	Mid     []c34Op `json:"mid,omitempty"`     // grow/tick performed by the health loop while the send is in flight
}

type c34Case struct {
	Ops []c34Op `json:"ops"`
}

var (
	c34Signals  = []string{"traces", "logs", "events_received", "events_dropped"}
	c34Deltas   = []int64{0, 1, 1, 2, 100, 1 << 20, 1 << 40}
	// per attempt; the first attempt is "pending" in 3 of 10 reports so that the
	// retry path (and pending answered by pending again) is exercised
	c34First = []string{"accept", "accept", "reject", "reject", "reject", "reject", "reject", "pending", "pending", "pending"}
	c34Retry = []string{"accept", "reject", "pending", "pending"}
)

func genC34(t *rapid.T) c34Case {
	basic := rapid.Custom(func(t *rapid.T) c34Op {
		if rapid.IntRange(0, 2).Draw(t, "basic") == 0 {
			return c34Op{Op: "tick"}
		}
		return c34Op{Op: "grow", Signal: rapid.SampledFrom(c34Signals).Draw(t, "signal"), D: rapid.SampledFrom(c34Deltas).Draw(t, "d")}
	})
	op := rapid.Custom(func(t *rapid.T) c34Op {
		k := rapid.IntRange(0, 11).Draw(t, "opkind")
		switch {
		case k <= 0:
			return c34Op{Op: "grow", Signal: rapid.SampledFrom(c34Signals).Draw(t, "signal"), D: rapid.SampledFrom(c34Deltas).Draw(t, "d")}
		case k <= 4: // growth that the health loop samples right away
			return c34Op{Op: "growtick", Signal: rapid.SampledFrom(c34Signals).Draw(t, "signal"), D: rapid.SampledFrom(c34Deltas).Draw(t, "d")}
		case k <= 5:
			return c34Op{Op: "tick"}
		default:
			o := c34Op{Op: "report", Replies: []string{rapid.SampledFrom(c34First).Draw(t, "reply")}}
			// state-free: later answers are drawn for every report, used only when an attempt is made
			o.Replies = append(o.Replies, rapid.SampledFrom(c34Retry).Draw(t, "reply2"), rapid.SampledFrom(c34Retry).Draw(t, "reply3"))
			if rapid.IntRange(0, 3).Draw(t, "hasmid") == 0 {
				o.Mid = rapid.SliceOfN(basic, 1, 3).Draw(t, "mid")
			}
			return o
		}
	})
	return c34Case{Ops: rapid.SliceOfN(op, 1, 40).Draw(t, "ops")}
}

var errC34Rejected = errors.New("verif: scripted send failure")

// c34Script is the list of client answers of a report op.
func c34Script(op c34Op) []string {
	if len(op.Replies) > 0 {
		return op.Replies
	}
	switch op.Outcome { // older replay files
	case "ok":
		return []string{"accept"}
	case "pending-ok":
		return []string{"pending", "accept"}
	case "pending-fail":
		return []string{"pending", "reject"}
	}
	return []string{"reject"}
}

// c34Client is the harness OpAMP client: only SendCustomMessage is ever called
// by sendUsageReport. Replies are scripted per call.
type c34Client struct {
	client.OpAMPClient
	script   []string // per call: "accept" | "pending" | "reject"
	calls    int
	accepted [][]byte
	offered  [][]byte
	onFirst  func() // runs inside the first call of a report (the send is "in flight")
	badCap   bool
}

func (c *c34Client) SendCustomMessage(msg *protobufs.CustomMessage) (chan struct{}, error) {
	if c.calls == 0 && c.onFirst != nil {
		c.onFirst()
	}
	reply := "reject"
	if c.calls < len(c.script) {
		reply = c.script[c.calls]
	}
	c.calls++
	if msg == nil || msg.Capability != agent.VerifUsageCapability {
		c.badCap = true
	}
	if msg != nil {
		c.offered = append(c.offered, append([]byte(nil), msg.Data...))
	}
	done := make(chan struct{})
	close(done)
	switch reply {
	case "accept":
		c.accepted = append(c.accepted, append([]byte(nil), msg.Data...))
		return done, nil
	case "pending":
		// an earlier message is still in flight; the returned channel is that message's
		return done, types.ErrCustomMessagePending
	default:
		return nil, errC34Rejected
	}
}

// c34Decode sums a report's data points per signal using pdata's own JSON unmarshaler.
func c34Decode(data []byte) (map[string]int64, int, []string) {
	var problems []string
	sums := map[string]int64{}
	points := 0
	m, err := (&pmetric.JSONUnmarshaler{}).UnmarshalMetrics(data)
	if err != nil {
		return nil, 0, []string{"undecodable: " + err.Error()}
	}
	rms := m.ResourceMetrics()
	for i := 0; i < rms.Len(); i++ {
		sms := rms.At(i).ScopeMetrics()
		for j := 0; j < sms.Len(); j++ {
			ms := sms.At(j).Metrics()
			for k := 0; k < ms.Len(); k++ {
				met := ms.At(k)
				if met.Type() != pmetric.MetricTypeSum {
					problems = append(problems, fmt.Sprintf("metric %q is not a sum", met.Name()))
					continue
				}
				dps := met.Sum().DataPoints()
				for d := 0; d < dps.Len(); d++ {
					dp := dps.At(d)
					points++
					var v int64
					switch dp.ValueType() {
					case pmetric.NumberDataPointValueTypeInt:
						v = dp.IntValue()
					case pmetric.NumberDataPointValueTypeDouble:
						v = int64(dp.DoubleValue())
						if dp.DoubleValue() < 0 {
							v = -1
						}
					}
					sig := ""
					if a, ok := dp.Attributes().Get("signal"); ok {
						sig = a.Str()
					}
					var key string
					switch {
					case met.Name() == "bytes_received" && (sig == "traces" || sig == "logs"):
						key = sig
					case (met.Name() == "events_received" || met.Name() == "events_dropped") && sig == "":
						key = met.Name()
					default:
						problems = append(problems, fmt.Sprintf("unattributable data point metric=%q signal=%q", met.Name(), sig))
						continue
					}
					if v < 0 {
						problems = append(problems, fmt.Sprintf("negative:%s=%d", key, v))
					}
					sums[key] += v
				}
			}
		}
	}
	return sums, points, problems
}

func execC34(c c34Case) vkit.Result {
	var res vkit.Result
	clock := clockwork.NewFakeClockAt(time.Unix(1_700_000_000, 0))
	cl := &c34Client{}
	ag := agent.VerifNewUsageAgent(cl, clock)
	defer ag.Cancel()

	cum := map[string]int64{}     // true cumulative counters
	sampled := map[string]int64{} // last cumulative reading handed to the tracker
	sent := map[string]int64{}    // ledger of accepted reports (plus written-off losses)
	failRun := 0                  // consecutive generated-but-undelivered reports
	failRunAtStake := false       // something was waiting when the run of failures began
	grewInRun := false
	maxFailRun := 0

	basic := func(op c34Op) {
		switch op.Op {
		case "grow":
			cum[op.Signal] += op.D
			if failRun > 0 && op.D > 0 {
				grewInRun = true
			}
		case "tick", "growtick": // healthCheck: one Add per signal with the current cumulative reading
			if op.Op == "growtick" {
				cum[op.Signal] += op.D
				if failRun > 0 && op.D > 0 {
					grewInRun = true
				}
			}
			for _, s := range agent.VerifUsageSignals {
				ag.Add(s, float64(cum[s]))
				sampled[s] = cum[s]
			}
		}
	}
	lastFail := "" // client answers of the most recent undelivered report
	failBucket := func() string {
		switch {
		case failRun == 0:
			return "failed-sends-before=0"
		case failRun == 1:
			return "failed-sends-before=1/answers=" + lastFail
		}
		return "failed-sends-before=2+/last-answers=" + lastFail
	}
	waiting := func(at map[string]int64) (int64, string) {
		var total int64
		desc := ""
		for _, s := range c34Signals {
			if w := at[s] - sent[s]; w != 0 {
				total += w
				desc += fmt.Sprintf(" %s:%d", s, w)
			}
		}
		return total, desc
	}

	report := func(step int, op c34Op) {
		cl.script = c34Script(op)
		cl.calls, cl.accepted, cl.offered = 0, nil, nil
		atReport := map[string]int64{}
		for k, v := range sampled {
			atReport[k] = v
		}
		cl.onFirst = func() {
			for _, m := range op.Mid {
				basic(m)
			}
		}
		clock.Advance(15 * time.Second)
		err := ag.SendUsageReport()
		if cl.badCap {
			res.Violate("C34/report/wrong-capability", "step %d: usage report not sent under %q", step, agent.VerifUsageCapability)
		}
		if agent.VerifIsNoData(err) {
			if w, desc := waiting(atReport); w != 0 {
				res.Violate("C34/usage-lost/"+failBucket(), "step %d: tracker says \"no data to report\" while the ledger still waits for%s (cumulative readings %v, delivered %v)", step, desc, atReport, sent)
				for _, s := range c34Signals { // write the loss off so the search goes on
					sent[s] = atReport[s]
				}
			}
			res.Class("report=no-data")
			failRun, failRunAtStake, grewInRun = 0, false, false
			return
		}
		if len(cl.offered) == 0 {
			res.Violate("C34/report/generation-error", "step %d: sendUsageReport returned %v without offering a report", step, err)
			return
		}
		// every offered payload must be well-formed and non-negative, delivered or not
		for i, p := range cl.offered {
			if i > 0 && string(p) != string(cl.offered[0]) {
				res.Violate("C34/report/retry-differs", "step %d: the retry after a pending send carried different bytes", step)
			}
			_, _, problems := c34Decode(p)
			for _, pr := range problems {
				if len(pr) > 9 && pr[:9] == "negative:" {
					res.Violate("C34/negative-usage", "step %d: report contains %s", step, pr)
				} else {
					res.Violate("C34/report/malformed", "step %d: %s", step, pr)
				}
			}
		}
		// what the client actually answered, attempt by attempt
		pattern := strings.Join(cl.script[:min(cl.calls, len(cl.script))], ">")
		if cl.calls > len(cl.script) {
			pattern += ">reject(unscripted)"
		}
		res.Class("answers=" + pattern)
		if len(cl.accepted) > 1 {
			res.Violate("C34/send-loop/report-accepted-twice", "step %d: answers %s: the same report was accepted %d times", step, pattern, len(cl.accepted))
		}
		// the return value is not part of the statement; what it leads to (completeSend
		// or not) shows up in the ledger. Counted, not asserted.
		if (err == nil) != (len(cl.accepted) == 1) {
			res.Class(fmt.Sprintf("send-loop-returned-%v-with-%d-accepted", err == nil, len(cl.accepted)))
		}
		if len(cl.accepted) == 0 {
			lastFail = pattern
			if failRun == 0 {
				w, _ := waiting(atReport)
				failRunAtStake = w > 0
			}
			failRun++
			if failRun > maxFailRun {
				maxFailRun = failRun
			}
			if failRun >= 2 && failRunAtStake {
				res.NonTrivial = true
				if grewInRun {
					res.Class("2+-failed-sends-with-growth-between")
				} else {
					res.Class("2+-failed-sends-no-growth-between")
				}
			}
			return
		}
		sums, points, _ := c34Decode(cl.accepted[0])
		for s, v := range sums {
			sent[s] += v
		}
		if points == 0 {
			res.Class("accepted-report-without-points")
		}
		// ledger: everything sampled before this report was generated is now delivered, once.
		for _, s := range c34Signals {
			switch d := sent[s] - atReport[s]; {
			case d < 0:
				res.Violate("C34/usage-lost/"+failBucket(), "step %d: after an accepted report signal %s: delivered in total %d, cumulative reading when the report was generated %d (%d lost)", step, s, sent[s], atReport[s], -d)
				sent[s] = atReport[s]
			case d > 0:
				res.Violate("C34/double-counted/"+failBucket(), "step %d: after an accepted report signal %s: delivered in total %d but the counter had only grown to %d (%d too much)", step, s, sent[s], atReport[s], d)
				sent[s] = atReport[s]
			}
		}
		failRun, failRunAtStake, grewInRun = 0, false, false
	}

	ops := append([]c34Op(nil), c.Ops...)
	// forced ending: sample once more and deliver a report, so that "still waiting" is empty
	ops = append(ops, c34Op{Op: "tick"}, c34Op{Op: "report", Replies: []string{"accept"}})
	for i, op := range ops {
		if op.Op == "report" {
			report(i, op)
		} else {
			basic(op)
		}
	}
	for _, s := range c34Signals {
		if sent[s] != cum[s] {
			res.Violate("C34/final-ledger", "signal %s: delivered %d, counter grew to %d", s, sent[s], cum[s])
		}
	}
	switch {
	case maxFailRun >= 3:
		res.Class("max-consecutive-failures>=3")
	default:
		res.Class(fmt.Sprintf("max-consecutive-failures=%d", maxFailRun))
	}
	return res
}

func TestC34(t *testing.T) {
	vkit.Run(t, vkit.Spec[c34Case]{
		ID:   "C34",
		Rule: "rapid-generated histories of counter growth (4 signals), health-loop samplings (usageTracker.Add of cumulative readings) and report attempts with scripted outcome (each SendCustomMessage of a report is answered accept / reject / pending per attempt, so pending>accept, pending>reject and pending>pending occur), optionally with growth+sampling while the send is in flight, executed by the agent's real sendUsageReport over a scripted OpAMP client; every case ends with a forced sampling and accepted report. Ledger oracle after every accepted report. Non-trivial: >=2 consecutive undelivered reports while usage was waiting. Distinct = distinct case JSON.",
		Assumptions: []string{
			"cumulative readings never decrease and are integers below 2^53 (premise of the statement: counter growth)",
			"a report counts as successfully sent when SendCustomMessage accepted it (returned no error) and its channel closed; a rejected or pending call delivered nothing",
			"the Agent's tickers and the real OpAMP websocket client are not driven; the send loop body and the tracker are the real code",
		},
		Gen:  genC34,
		Exec: execC34,
	})
}
