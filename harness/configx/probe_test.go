package configx

import (
	"encoding/json"
	"fmt"
	"os"
	"runtime"
	"strings"
	"sync"
	"testing"
)

func TestProbeC27Flaky(t *testing.T) {
	c27T = t
	b, _ := os.ReadFile("/verif/failures/C27/C27-25e65135181c4b65.json")
	var doc struct{ Case c27Case `json:"case"` }
	if err := json.Unmarshal(b, &doc); err != nil {
		t.Fatal(err)
	}
	doc.Case.Steps = doc.Case.Steps[:1]
	var mu sync.Mutex
	var log []string
	c27Trace = func(f string, a ...any) {
		buf := make([]byte, 64)
		buf = buf[:runtime.Stack(buf, false)]
		id := strings.Fields(string(buf))[1]
		mu.Lock()
		log = append(log, "g"+id+" "+fmt.Sprintf(f, a...))
		mu.Unlock()
	}
	for i := 0; i < 3000; i++ {
		log = log[:0]
		res := execC27(doc.Case)
		if len(res.Violations) > 0 {
			fmt.Println("ITER", i, res.Violations[0].Signature, res.Violations[0].Detail)
			fmt.Println(strings.Join(log, "\n"))
			return
		}
	}
	fmt.Println("no failure")
}
