package configx

import (
	"fmt"
	"os"
	"path/filepath"
	"regexp"
	"sort"
	"strings"
	"testing"

	"github.com/honeycombio/refinery/config"
	"github.com/honeycombio/refinery/verifharness/vkit"
	"pgregory.net/rapid"
)

// C29: settings resolve with documented precedence (flag > env > later file >
// earlier file > documented default) and ${VAR} expansion; the values
// validation checks are the values Refinery then uses.
//
// SUT: the real startup path config.NewCmdEnvOptions(args) + config.NewConfig(opts)
// on generated YAML files in a per-case temp dir with the process environment
// set per case. Oracle: (1) a precedence/expansion model written from the
// statement, fed only by the documented names (CmdEnv struct tags + metadata);
// (2) a "literal twin": ONE config file holding the model's effective values
// literally, loaded with no flags / env vars / references - the layered
// configuration and its twin must get the same verdict and the same getter values.

type c29Val struct {
	S string            `json:"s,omitempty"`
	L []string          `json:"l,omitempty"`
	M map[string]string `json:"m,omitempty"`
}

type c29Assign struct {
	Src     string `json:"src"`             // flag | env | file1 | file2
	Setting string `json:"setting"`         // the setting this assignment is aimed at
	Level   int    `json:"level,omitempty"` // cmdenv level for flag/env (0 = specific name, 1 = shared fallback)
	Name    string `json:"name,omitempty"`  // long flag name / env var name
	Val     c29Val `json:"val"`
	Valid   bool   `json:"valid"` // generator's intent; only ever used to SKIP an assertion
}

type c29Case struct {
	Assigns []c29Assign       `json:"assigns"`
	Vars    map[string]string `json:"vars,omitempty"` // environment for ${VAR}; a referenced name not listed is unset
	LocVia  string            `json:"loc_via"`        // config locations given by "flag" (-c twice) or "env" (REFINERY_CONFIG=a,b)
	FlagEq  bool              `json:"flag_eq,omitempty"`
}

// ---------------------------------------------------------------- value domains

var c29MemTable = []struct {
	Text string
	N    uint64
}{{"1GiB", 1 << 30}, {"2Gb", 2_000_000_000}, {"3MiB", 3 << 20}, {"4000000", 4_000_000}, {"5G", 5_000_000_000}, {"6Mi", 6 << 20}, {"7MB", 7_000_000}}

func c29Scalar(s *cxSetting, class string, idx int, valid bool) string {
	switch class {
	case "hostport":
		if valid {
			return fmt.Sprintf("10.0.%d.1:%d", idx%250, 7000+idx)
		}
		return fmt.Sprintf("nocolon%d", idx)
	case "url":
		if !valid {
			return fmt.Sprintf("ftp://h%d.example.com", idx)
		}
		if idx%2 == 0 {
			return fmt.Sprintf("https://h%d.example.com", idx)
		}
		return fmt.Sprintf("http://h%d.example.com:8443", idx)
	case "apikey":
		if !valid {
			return fmt.Sprintf("bad-key-%d", idx)
		}
		if idx%2 == 0 {
			return fmt.Sprintf("%032x", 0xabc000+idx)
		}
		return fmt.Sprintf("Key%02dabcdefghijklmnopq", idx%100)
	case "alnum":
		if valid {
			return fmt.Sprintf("pfx%d", idx)
		}
		return fmt.Sprintf("pf-x%d", idx)
	case "version":
		if valid {
			return fmt.Sprintf("v2.%d", idx)
		}
		return fmt.Sprintf("2.%d.x", idx)
	case "choice":
		if valid && len(s.Choices) > 0 {
			return s.Choices[idx%len(s.Choices)]
		}
		return fmt.Sprintf("bogus%d", idx)
	case "memsize":
		if valid {
			return c29MemTable[idx%len(c29MemTable)].Text
		}
		return fmt.Sprintf("%dparsecs", idx+1)
	}
	// free strings: always valid
	if s.Path == "StressRelief.Mode" {
		return []string{"never", "monitor", "always"}[idx%3]
	}
	return fmt.Sprintf("val%d-%s", idx, strings.ToLower(s.Field))
}

func c29MakeVal(s *cxSetting, idx, n int, valid bool) c29Val {
	switch {
	case strings.HasPrefix(s.Class, "list:"):
		ec := strings.TrimPrefix(s.Class, "list:")
		var l []string
		for j := 0; j < n; j++ {
			l = append(l, c29Scalar(s, ec, idx*10+j, valid || j > 0))
		}
		return c29Val{L: l}
	case s.Class == "map":
		m := map[string]string{}
		for j := 0; j < n; j++ {
			k := fmt.Sprintf("k%d%c", idx, 'a'+j)
			if s.Path == "Network.AdditionalHeaders" {
				k = fmt.Sprintf("X-Custom-%d-%c", idx, 'a'+j)
				if !valid && j == 0 {
					k = "X-Honeycomb-Team"
				}
			}
			m[k] = fmt.Sprintf("v%d%c", idx, 'a'+j)
		}
		return c29Val{M: m}
	}
	return c29Val{S: c29Scalar(s, s.Class, idx, valid)}
}

// c29Template rewrites v so that (parts of) it arrive through ${VAR}
// references. set[i] tells whether the i-th variable is set in the environment.
func c29Template(v string, mode int, base string, set []bool, vars map[string]string) string {
	name := func(i int) string { return fmt.Sprintf("%s_%d", base, i) }
	put := func(i int, val string) string {
		if set[i%len(set)] {
			vars[name(i)] = val
		}
		return "${" + name(i) + "}"
	}
	if len(v) < 3 {
		mode = 1
	}
	h := len(v) / 2
	switch mode {
	case 1: // whole value
		return put(0, v)
	case 2: // prefix
		return put(0, v[:h]) + v[h:]
	case 3: // suffix
		return v[:h] + put(0, v[h:])
	case 4: // two adjoining references
		return put(0, v[:h]) + put(1, v[h:])
	case 5: // middle
		return v[:1] + put(0, v[1:len(v)-1]) + v[len(v)-1:]
	case 6: // no braces: documented as NOT a reference
		vars[name(0)] = "shouldnotappear"
		return "$" + name(0)
	}
	return v
}

// c29Expand is the oracle's own reading of the statement: ${NAME} is replaced
// by the variable's value, left unchanged when NAME is unset.
func c29Expand(raw string, vars map[string]string) string {
	var b strings.Builder
	for i := 0; i < len(raw); {
		if strings.HasPrefix(raw[i:], "${") {
			if j := strings.IndexByte(raw[i+2:], '}'); j > 0 {
				name := raw[i+2 : i+2+j]
				if val, ok := vars[name]; ok && val != "" {
					b.WriteString(val)
				} else {
					b.WriteString(raw[i : i+2+j+1])
				}
				i += 2 + j + 1
				continue
			}
		}
		b.WriteByte(raw[i])
		i++
	}
	return b.String()
}

func c29ExpandVal(v c29Val, vars map[string]string) c29Val {
	out := c29Val{S: c29Expand(v.S, vars)}
	for _, e := range v.L {
		out.L = append(out.L, c29Expand(e, vars))
	}
	if v.M != nil {
		out.M = map[string]string{}
		for k, e := range v.M {
			out.M[k] = c29Expand(e, vars)
		}
	}
	return out
}

func c29HasRef(v c29Val) bool {
	if strings.Contains(v.S, "${") {
		return true
	}
	for _, e := range v.L {
		if strings.Contains(e, "${") {
			return true
		}
	}
	for _, e := range v.M {
		if strings.Contains(e, "${") {
			return true
		}
	}
	return false
}

// c29Obs renders a value the way cxSnapshot renders the getter's answer.
func c29Obs(s *cxSetting, v c29Val) string {
	switch {
	case strings.HasPrefix(s.Class, "list:"):
		l := v.L
		if l == nil {
			l = []string{}
		}
		return cxJSON(l)
	case s.Class == "map":
		m := v.M
		if m == nil {
			m = map[string]string{}
		}
		return cxJSON(m)
	case s.Class == "memsize":
		for _, e := range c29MemTable {
			if e.Text == v.S {
				return cxJSON(e.N)
			}
		}
		return "?memsize:" + v.S
	}
	return cxJSON(v.S)
}

func c29DefaultObs(s *cxSetting) (string, bool) {
	switch d := s.Default.(type) {
	case string:
		if strings.HasPrefix(s.Class, "list:") || s.Class == "map" || s.Class == "memsize" {
			return "", false
		}
		return cxJSON(d), true
	}
	return "", false
}

// ---------------------------------------------------------------- generator

func c29InScope() (tagged, plain []*cxSetting) {
	all, _ := cxSettings()
	meta := c29Deprecated()
	for _, s := range all {
		if !s.HasMeta || meta[s.Path] || s.Class == "other" {
			continue
		}
		if len(s.Levels) > 0 {
			tagged = append(tagged, s)
		} else if s.StringLike {
			plain = append(plain, s)
		}
	}
	return
}

var c29DeprecatedCache map[string]bool

func c29Deprecated() map[string]bool {
	if c29DeprecatedCache != nil {
		return c29DeprecatedCache
	}
	c29DeprecatedCache = map[string]bool{}
	meta, err := config.LoadConfigMetadata()
	if err != nil {
		panic(err)
	}
	for _, g := range meta.Groups {
		for _, f := range g.Fields {
			if f.LastVersion != "" || g.LastVersion != "" {
				c29DeprecatedCache[g.Name+"."+f.Name] = true
			}
		}
	}
	return c29DeprecatedCache
}

func genC29(t *rapid.T) c29Case {
	tagged, plain := c29InScope()
	c := c29Case{Vars: map[string]string{}}
	c.LocVia = rapid.SampledFrom([]string{"flag", "flag", "env"}).Draw(t, "locvia")
	c.FlagEq = rapid.Bool().Draw(t, "flageq")
	type group struct {
		As   []c29Assign
		Vars map[string]string
	}
	var chained []*cxSetting
	for _, s := range tagged {
		if len(s.Levels) > 1 {
			chained = append(chained, s)
		}
	}
	settingGen := rapid.Custom(func(t *rapid.T) group {
		g := group{Vars: map[string]string{}}
		var s *cxSetting
		if k := rapid.IntRange(0, 9).Draw(t, "tagged"); k < 2 && len(chained) > 0 {
			// settings with a fallback chain (own option + shared option) get their own share
			s = chained[rapid.IntRange(0, len(chained)-1).Draw(t, "ci")]
		} else if k < 6 {
			s = tagged[rapid.IntRange(0, len(tagged)-1).Draw(t, "si")]
		} else {
			s = plain[rapid.IntRange(0, len(plain)-1).Draw(t, "pi")]
		}
		// available sources
		type src struct {
			kind  string
			level int
			name  string
		}
		var avail []src
		for li, lv := range s.Levels {
			for _, n := range lv.Flags {
				avail = append(avail, src{"flag", li, n})
			}
			for _, n := range lv.Envs {
				avail = append(avail, src{"env", li, n})
			}
		}
		avail = append(avail, src{"file1", 0, ""}, src{"file2", 0, ""})
		mask := rapid.IntRange(1, (1<<len(avail))-1).Draw(t, "srcmask")
		for i, a := range avail {
			if mask&(1<<i) == 0 {
				continue
			}
			valid := rapid.IntRange(0, 9).Draw(t, "valid") < 9
			n := rapid.IntRange(1, 3).Draw(t, "n")
			// idx: distinct per source so the oracle can tell who won
			val := c29MakeVal(s, i+1, n, valid)
			as := c29Assign{Src: a.kind, Setting: s.Path, Level: a.level, Name: a.name, Val: val, Valid: valid}
			if s.StringLike && s.Class != "memsize" {
				// references are placed in file values and - less often - in values delivered by a flag or an
				// env var (README: expansion happens "after processing any command lines")
				modes := []int{0, 0, 0, 1, 1, 2, 3, 4, 5, 6}
				if !strings.HasPrefix(a.kind, "file") {
					modes = []int{0, 0, 0, 0, 0, 0, 1, 1, 2, 3, 4, 5}
				}
				mode := rapid.SampledFrom(modes).Draw(t, "refmode")
				if mode == 6 && !(s.Class == "free" || s.Class == "list:free" || s.Class == "map") {
					mode = 1
				}
				if mode != 0 {
					set := []bool{rapid.IntRange(0, 4).Draw(t, "set0") > 0, rapid.IntRange(0, 4).Draw(t, "set1") > 0}
					base := fmt.Sprintf("C29V_%s_%s", strings.ToUpper(strings.ReplaceAll(s.Path, ".", "_")), strings.ToUpper(a.kind))
					if !strings.HasPrefix(a.kind, "file") {
						base += fmt.Sprintf("%d%d", a.level, i)
					}
					switch {
					case val.L != nil:
						j := rapid.IntRange(0, len(val.L)-1).Draw(t, "elem")
						val.L[j] = c29Template(val.L[j], mode, base, set, g.Vars)
					case val.M != nil:
						keys := make([]string, 0, len(val.M))
						for k := range val.M {
							keys = append(keys, k)
						}
						sort.Strings(keys)
						k := keys[rapid.IntRange(0, len(keys)-1).Draw(t, "mkey")]
						val.M[k] = c29Template(val.M[k], mode, base, set, g.Vars)
					default:
						val.S = c29Template(val.S, mode, base, set, g.Vars)
					}
					as.Val = val
				}
			}
			g.As = append(g.As, as)
		}
		return g
	})
	usedSetting := map[string]bool{}
	for _, g := range rapid.SliceOfN(settingGen, 1, 4).Draw(t, "settings") {
		// one group per setting: a second group for the same setting would reuse its variable names
		if len(g.As) == 0 || usedSetting[g.As[0].Setting] {
			continue
		}
		usedSetting[g.As[0].Setting] = true
		c.Assigns = append(c.Assigns, g.As...)
		for k, v := range g.Vars {
			c.Vars[k] = v
		}
	}
	return c
}

// ---------------------------------------------------------------- execution

type c29Cand struct {
	Src string // flag, env, flag-doc, env-doc, file2, file1, file1+file2-merged, default
	Obs string
	Val c29Val // the literal (expanded) value, for the twin
	Lit bool   // Val is meaningful (false for the default)
	Ref bool   // the raw value carried a ${VAR} reference
	A   *c29Assign
}

type c29Expect struct {
	S          *cxSetting
	Acceptable []c29Cand // nil = don't care
	All        []c29Cand // every candidate value in play, for attribution
	Sources    int
	HasRef     bool // the winning value carried a reference
}

type c29Outcome struct {
	LayAcc, TwinAcc   bool
	LayErr, TwinErr   string
	LaySnap, TwinSnap map[string]string
	Expect            map[string]*c29Expect
	Touched           []string
	Ambiguous         bool
	ShadowInvalid     bool
	WinnerInvalid     bool
	TwinRun           bool
}

func c29Dedupe(in []c29Assign) []c29Assign {
	seen := map[string]bool{}
	var out []c29Assign
	for _, a := range in {
		k := a.Src + "|" + a.Name
		if a.Src == "file1" || a.Src == "file2" {
			k = a.Src + "|" + a.Setting
		}
		if seen[k] {
			continue
		}
		seen[k] = true
		out = append(out, a)
	}
	return out
}

func c29AssignLooksValid(s *cxSetting, a c29Assign, vars map[string]string) bool {
	if !a.Valid {
		return false
	}
	if !c29HasRef(a.Val) {
		return true
	}
	// a reference to an unset variable stays literal: only harmless for free strings
	ex := c29ExpandVal(a.Val, vars)
	if c29HasRef(ex) {
		switch s.Class {
		case "free", "list:free", "map":
			return true
		}
		return false
	}
	return true
}

func c29Args(dir string, nfiles int, locVia string, flagEq bool, flags []c29Assign, settings map[string]*cxSetting) (args []string, env map[string]string) {
	env = map[string]string{}
	args = []string{"refinery"}
	var files []string
	for i := 0; i < nfiles; i++ {
		files = append(files, filepath.Join(dir, fmt.Sprintf("config%d.yaml", i+1)))
	}
	rules := filepath.Join(dir, "rules.yaml")
	if locVia == "env" {
		env["REFINERY_CONFIG"] = strings.Join(files, ",")
		env["REFINERY_RULES_CONFIG"] = rules
	} else {
		for _, f := range files {
			args = append(args, "-c", f)
		}
		args = append(args, "-r", rules)
	}
	add := func(name, v string) {
		if flagEq {
			args = append(args, "--"+name+"="+v)
		} else {
			args = append(args, "--"+name, v)
		}
	}
	for _, a := range flags {
		switch {
		case a.Val.L != nil:
			for _, e := range a.Val.L {
				add(a.Name, e)
			}
		case a.Val.M != nil:
			keys := make([]string, 0, len(a.Val.M))
			for k := range a.Val.M {
				keys = append(keys, k)
			}
			sort.Strings(keys)
			for _, k := range keys {
				add(a.Name, k+":"+a.Val.M[k])
			}
		default:
			add(a.Name, a.Val.S)
		}
	}
	return args, env
}

func c29EnvText(v c29Val) string {
	switch {
	case v.L != nil:
		return strings.Join(v.L, ",")
	case v.M != nil:
		keys := make([]string, 0, len(v.M))
		for k := range v.M {
			keys = append(keys, k)
		}
		sort.Strings(keys)
		var parts []string
		for _, k := range keys {
			parts = append(parts, k+":"+v.M[k])
		}
		return strings.Join(parts, ",")
	}
	return v.S
}

func c29YamlValue(v c29Val) any {
	switch {
	case v.L != nil:
		return v.L
	case v.M != nil:
		return v.M
	}
	return v.S
}

var c29Prefixes = []string{"REFINERY_", "C29V_", "HONEYCOMB_CONFIG_KEY"}

// c29Eval runs the layered configuration and its literal twin.
func c29Eval(assigns []c29Assign, vars map[string]string, locVia string, flagEq bool) c29Outcome {
	_, byPath := cxSettings()
	assigns = c29Dedupe(assigns)
	out := c29Outcome{Expect: map[string]*c29Expect{}}

	flags := map[string]*c29Assign{}
	envs := map[string]*c29Assign{}
	files := [2]map[string]*c29Assign{{}, {}}
	var flagList []c29Assign
	for i := range assigns {
		a := &assigns[i]
		switch a.Src {
		case "flag":
			flags[a.Name] = a
			flagList = append(flagList, *a)
		case "env":
			envs[a.Name] = a
		case "file1":
			files[0][a.Setting] = a
		case "file2":
			files[1][a.Setting] = a
		}
	}

	// ---- model
	tagged, plain := c29InScope()
	scope := append(append([]*cxSetting{}, tagged...), plain...)
	for _, s := range scope {
		e := &c29Expect{S: s}
		cand := func(src string, a *c29Assign, expanded bool) c29Cand {
			v := a.Val
			if expanded {
				v = c29ExpandVal(v, vars)
			}
			return c29Cand{Src: src, Obs: c29Obs(s, v), Val: v, Lit: true, Ref: expanded && c29HasRef(a.Val), A: a}
		}
		var decided bool
		for li, lv := range s.Levels {
			var fl, en []c29Cand
			for _, n := range lv.Flags {
				if a := flags[n]; a != nil {
					src := "flag"
					if lv.DocOnly[n] {
						src = "flag-doc"
					}
					if li > 0 {
						src += "-shared"
					}
					fl = append(fl, cand(src, a, true))
					if c29HasRef(a.Val) {
						e.All = append(e.All, cand(src+"-raw", a, false))
					}
				}
			}
			for _, n := range lv.Envs {
				if a := envs[n]; a != nil {
					src := "env"
					if lv.DocOnly[n] {
						src = "env-doc"
					}
					if li > 0 {
						src += "-shared"
					}
					en = append(en, cand(src, a, true))
					if c29HasRef(a.Val) {
						e.All = append(e.All, cand(src+"-raw", a, false))
					}
				}
			}
			e.Sources += len(fl) + len(en)
			e.All = append(e.All, fl...)
			e.All = append(e.All, en...)
			if decided {
				continue
			}
			switch {
			case len(fl) > 0:
				e.Acceptable, decided = fl, true
				e.HasRef = fl[0].Ref
			case len(en) > 0:
				e.Acceptable, decided = en, true
				e.HasRef = en[0].Ref
				// a flag of a later (shared) level vs. an env var of this level: the
				// statement says flag > env, the README says the specific name wins.
				for _, lv2 := range s.Levels[li+1:] {
					for _, n := range lv2.Flags {
						if a := flags[n]; a != nil {
							e.Acceptable = append(e.Acceptable, cand("flag-shared", a, true))
						}
					}
				}
			}
		}
		// an option whose rank the documentation does not give: any of the given options may win
		{
			undocSet, levelsSet := false, 0
			var all []c29Cand
			for _, lv := range s.Levels {
				set := false
				for _, n := range lv.Flags {
					if flags[n] != nil {
						set = true
					}
				}
				for _, n := range lv.Envs {
					if envs[n] != nil {
						set = true
					}
				}
				if set {
					levelsSet++
					undocSet = undocSet || lv.Undoc
				}
			}
			if undocSet && levelsSet > 1 {
				for _, c := range e.All {
					if !strings.HasSuffix(c.Src, "-raw") {
						all = append(all, c)
					}
				}
				e.Acceptable = all
			}
		}
		for fi := 1; fi >= 0; fi-- {
			if a := files[fi][s.Path]; a != nil {
				src := fmt.Sprintf("file%d", fi+1)
				e.Sources++
				c := cand(src, a, true)
				e.All = append(e.All, c)
				if c29HasRef(a.Val) {
					if raw := cand(src+"-raw", a, false); raw.Obs != c.Obs {
						e.All = append(e.All, raw)
					}
				}
				if !decided {
					e.Acceptable, decided = []c29Cand{c}, true
					e.HasRef = c29HasRef(a.Val)
					// a map given in both files: "later files overriding earlier ones" can be read
					// per setting or per key; both readings are accepted.
					if f1 := files[0][s.Path]; fi == 1 && f1 != nil && s.Class == "map" {
						merged := c29Val{M: map[string]string{}}
						for k, v := range c29ExpandVal(f1.Val, vars).M {
							merged.M[k] = v
						}
						for k, v := range c.Val.M {
							merged.M[k] = v
						}
						e.Acceptable = append(e.Acceptable, c29Cand{Src: "file1+file2-merged", Obs: c29Obs(s, merged), Val: merged, Lit: true, Ref: c.Ref || c29HasRef(f1.Val), A: a})
					}
				}
			}
		}
		if d, ok := c29DefaultObs(s); ok {
			e.All = append(e.All, c29Cand{Src: "default", Obs: d})
			if !decided {
				e.Acceptable = []c29Cand{{Src: "default", Obs: d}}
			}
		}
		// distinct acceptable observations
		uniq := map[string]bool{}
		for _, c := range e.Acceptable {
			uniq[c.Obs] = true
		}
		if len(uniq) > 1 {
			out.Ambiguous = true
		}
		if e.Sources > 0 {
			out.Touched = append(out.Touched, s.Path)
			winners := map[*c29Assign]bool{}
			for _, c := range e.Acceptable {
				if c.A != nil {
					winners[c.A] = true
					if !c29AssignLooksValid(s, *c.A, vars) {
						out.WinnerInvalid = true
					}
				}
			}
			if f1 := files[0][s.Path]; f1 != nil && len(e.Acceptable) > 1 && e.Acceptable[len(e.Acceptable)-1].Src == "file1+file2-merged" {
				winners[f1] = true
				if !c29AssignLooksValid(s, *f1, vars) {
					out.WinnerInvalid = true
				}
			}
			for i := range assigns {
				a := &assigns[i]
				if winners[a] {
					continue
				}
				rel := a.Setting == s.Path && (a.Src == "file1" || a.Src == "file2")
				if a.Src == "flag" || a.Src == "env" {
					for _, lv := range s.Levels {
						if cxContains(lv.Flags, a.Name) && a.Src == "flag" || cxContains(lv.Envs, a.Name) && a.Src == "env" {
							rel = true
						}
					}
				}
				if rel && !c29AssignLooksValid(s, *a, vars) {
					out.ShadowInvalid = true
				}
			}
		}
		out.Expect[s.Path] = e
	}
	sort.Strings(out.Touched)
	_ = byPath

	// ---- layered run
	dir, err := os.MkdirTemp("", "c29-")
	if err != nil {
		panic(err)
	}
	defer os.RemoveAll(dir)
	nfiles := 1
	if len(files[1]) > 0 {
		nfiles = 2
	}
	for fi := 0; fi < nfiles; fi++ {
		doc := map[string]map[string]any{}
		if fi == 0 {
			doc["General"] = map[string]any{"ConfigurationVersion": 2}
		}
		for path, a := range files[fi] {
			s := byPath[path]
			if doc[s.Group] == nil {
				doc[s.Group] = map[string]any{}
			}
			doc[s.Group][s.Field] = c29YamlValue(a.Val)
		}
		if err := os.WriteFile(filepath.Join(dir, fmt.Sprintf("config%d.yaml", fi+1)), cxYAML(doc), 0o644); err != nil {
			panic(err)
		}
	}
	if err := os.WriteFile(filepath.Join(dir, "rules.yaml"), []byte(cxRulesBase), 0o644); err != nil {
		panic(err)
	}
	args, env := c29Args(dir, nfiles, locVia, flagEq, flagList, byPath)
	for n, a := range envs {
		env[n] = c29EnvText(a.Val)
	}
	for k, v := range vars {
		env[k] = v
	}
	func() {
		restore := cxEnvScope(c29Prefixes, env)
		defer restore()
		c, acc, et := cxLoad(args)
		out.LayAcc, out.LayErr = acc, et
		if acc {
			out.LaySnap = cxSnapshot(c)
		}
	}()

	// ---- literal twin: the effective values (of the acceptable readings, the one the
	// SUT chose if it chose one; else the first) written literally into one file
	tdir, err := os.MkdirTemp("", "c29t-")
	if err != nil {
		panic(err)
	}
	defer os.RemoveAll(tdir)
	doc := map[string]map[string]any{"General": {"ConfigurationVersion": 2}}
	for _, p := range out.Touched {
		e := out.Expect[p]
		if len(e.Acceptable) == 0 || !e.Acceptable[0].Lit {
			continue
		}
		pick := e.Acceptable[0]
		if out.LayAcc {
			for _, c := range e.Acceptable {
				if c.Lit && c.Obs == out.LaySnap[p] {
					pick = c
					break
				}
			}
		}
		if doc[e.S.Group] == nil {
			doc[e.S.Group] = map[string]any{}
		}
		doc[e.S.Group][e.S.Field] = c29YamlValue(pick.Val)
	}
	if err := os.WriteFile(filepath.Join(tdir, "config1.yaml"), cxYAML(doc), 0o644); err != nil {
		panic(err)
	}
	if err := os.WriteFile(filepath.Join(tdir, "rules.yaml"), []byte(cxRulesBase), 0o644); err != nil {
		panic(err)
	}
	targs, tenv := c29Args(tdir, 1, "flag", false, nil, byPath)
	func() {
		restore := cxEnvScope(c29Prefixes, tenv)
		defer restore()
		c, acc, et := cxLoad(targs)
		out.TwinAcc, out.TwinErr = acc, et
		if acc {
			out.TwinSnap = cxSnapshot(c)
		}
	}()
	out.TwinRun = true
	return out
}

var c29FieldRe = regexp.MustCompile(`field ([A-Za-z]+\.[A-Za-z]+)`)

func c29VerdictKind(o c29Outcome) string {
	switch {
	case !o.TwinRun:
		return ""
	case o.LayAcc && !o.TwinAcc:
		return "accepted-but-literal-values-rejected"
	case !o.LayAcc && o.TwinAcc && !o.ShadowInvalid && !o.Ambiguous:
		return "rejected-but-literal-values-accepted"
	}
	return ""
}

// c29RelevantTo keeps the assignments that can influence setting s.
func c29RelevantTo(s *cxSetting, assigns []c29Assign) []c29Assign {
	var out []c29Assign
	for _, a := range assigns {
		switch a.Src {
		case "file1", "file2":
			if a.Setting == s.Path {
				out = append(out, a)
			}
		case "flag":
			for _, lv := range s.Levels {
				if cxContains(lv.Flags, a.Name) {
					out = append(out, a)
					break
				}
			}
		case "env":
			for _, lv := range s.Levels {
				if cxContains(lv.Envs, a.Name) {
					out = append(out, a)
					break
				}
			}
		}
	}
	return out
}

func execC29(c c29Case) vkit.Result {
	var res vkit.Result
	_, byPath := cxSettings()
	vars := c.Vars
	if vars == nil {
		vars = map[string]string{}
	}
	o := c29Eval(c.Assigns, vars, c.LocVia, c.FlagEq)

	// classes and non-triviality
	maxSources := 0
	for _, p := range o.Touched {
		e := o.Expect[p]
		if e.Sources > maxSources {
			maxSources = e.Sources
		}
		res.Class("class:" + e.S.Class)
		if len(e.Acceptable) > 0 {
			res.Class("winner:" + e.Acceptable[0].Src)
		}
		own, shared := false, false
		for _, c := range e.All {
			if strings.HasPrefix(c.Src, "flag") || strings.HasPrefix(c.Src, "env") {
				if strings.Contains(c.Src, "-shared") {
					shared = true
				} else {
					own = true
				}
			}
		}
		if own && shared {
			res.Class("chain:own+shared-both-given:" + p)
		}
		if e.HasRef {
			res.Class("winner-has-ref")
			if e.S.Class == "map" || strings.HasPrefix(e.S.Class, "list:") {
				res.Class("ref-inside-map-or-list")
			}
			if c29HasRef(e.Acceptable[0].Val) {
				res.Class("ref-to-unset-var")
			}
		}
	}
	res.Class(fmt.Sprintf("max-sources=%d", maxSources))
	res.NonTrivial = maxSources >= 2
	if o.Ambiguous {
		res.Class("ambiguous:specific-env-vs-shared-flag-or-aliases")
	}
	if o.ShadowInvalid {
		res.Class("shadowed-invalid-value(dont-care)")
	}
	if o.WinnerInvalid {
		res.Class("winning-value-invalid")
	}
	if o.LayAcc {
		res.Class("verdict:accepted")
	} else {
		res.Class("verdict:rejected")
	}

	// (1) verdict: layered configuration vs literal twin
	if kind := c29VerdictKind(o); kind != "" {
		culprit := "interaction"
		for _, p := range o.Touched {
			sub := c29Eval(c29RelevantTo(byPath[p], c.Assigns), vars, c.LocVia, c.FlagEq)
			if c29VerdictKind(sub) == kind {
				culprit = p
				if e := sub.Expect[p]; e != nil && len(e.Acceptable) > 0 {
					culprit += "/via=" + strings.TrimRight(e.Acceptable[0].Src, "12")
					anyRef := e.HasRef
					for _, a := range c29RelevantTo(byPath[p], c.Assigns) {
						anyRef = anyRef || c29HasRef(a.Val)
					}
					if anyRef {
						culprit += "+ref"
					}
				}
				break
			}
		}
		res.Violate("C29/verdict/"+kind+"/"+culprit, "layered: accepted=%v err=%q; literal twin: accepted=%v err=%q; touched=%v", o.LayAcc, o.LayErr, o.TwinAcc, o.TwinErr, o.Touched)
	}
	if !o.LayAcc {
		return res
	}

	// (2) every in-scope setting has the value of its highest-precedence source
	reported := map[string]bool{}
	paths := make([]string, 0, len(o.Expect))
	for p := range o.Expect {
		paths = append(paths, p)
	}
	sort.Strings(paths)
	for _, p := range paths {
		e := o.Expect[p]
		if len(e.Acceptable) == 0 {
			continue
		}
		got := o.LaySnap[p]
		ok := false
		for _, a := range e.Acceptable {
			if a.Obs == got {
				ok = true
			}
		}
		if ok {
			continue
		}
		label := "other"
		for _, a := range e.All {
			if a.Obs == got {
				label = a.Src
				break
			}
		}
		if label == "other" && c29Partial(got, e.Acceptable[0].Obs) {
			label = "partial"
		}
		want := e.Acceptable[0].Src
		if e.HasRef && label != "partial" { // a truncated list is the same deviation with or without a reference in it
			want += "+ref"
		}
		reported[p] = true
		var cands []string
		for _, a := range e.All {
			cands = append(cands, a.Src+"="+a.Obs)
		}
		res.Violate(fmt.Sprintf("C29/value/%s/want=%s/got=%s", p, want, label), "setting %s: expected %s (from %s), getter returned %s; values in play: %s", p, e.Acceptable[0].Obs, e.Acceptable[0].Src, got, strings.Join(cands, " | "))
	}

	// (3) the twin must be indistinguishable through every getter
	if o.TwinRun && o.TwinAcc {
		for _, k := range cxDiffKeys(o.LaySnap, o.TwinSnap) {
			if reported[k] {
				continue
			}
			res.Violate("C29/twin-differs/"+k, "getter %s: layered %s, literal twin %s", k, o.LaySnap[k], o.TwinSnap[k])
		}
	}
	return res
}

// c29Partial: got is a non-empty proper part (list prefix / sub-map) of want.
func c29Partial(got, want string) bool {
	if got == want || len(got) < 3 {
		return false
	}
	inner := strings.TrimSuffix(strings.TrimPrefix(got, got[:1]), got[len(got)-1:])
	return inner != "" && strings.Contains(want, inner)
}

func TestC29(t *testing.T) {
	vkit.Run(t, vkit.Spec[c29Case]{
		ID: "C29",
		Rule: "rapid-generated configurations: 1-4 settings per case drawn from every observable main-config setting that has a cmdenv tag or a documented string/hostport/url/list/map type (counts in coverage: settings_with_cmdenv, string_settings_without_cmdenv), each given through a generated non-empty subset of its sources " +
			"{--flag, env var (struct-tag name or the name the metadata documents), shared fallback flag/env (HoneycombAPIKey), file1, file2} with a distinct value per source (valid for the setting's documented type, ~10% deliberately invalid); " +
			"file values - and, less often, flag and env-var values - of string-typed settings carry ${VAR} references (whole value, prefix, suffix, two adjoining, middle, brace-less) incl. inside list elements and map values, each variable set or unset. " +
			"Executed through the real NewCmdEnvOptions+NewConfig with the process environment set per case; judged against a precedence/expansion model and against a literal twin (one file with the model's effective values, no flags/env). " +
			"Non-trivial: some setting has >=2 sources present. Distinct = distinct case JSON.",
		Assumptions: []string{
			"effective values are observed through the exported Config getters only (settings without a getter are out of scope)",
			"the order of a fallback chain (own option before shared option) is taken from the documentation only - the metadata's envvar:/commandLine: lists and the README 'takes precedence' note - never from the struct's cmdenv tag order; the CmdEnv option table only pairs each documented env var with its flag; own before shared within the same kind; a specific env var vs a shared flag is not decided by the statement (either accepted, counted as ambiguous)",
			"zero/empty flag or env values are not generated (cmdenv.go documents that a zero value means 'not given')",
			"a rejected configuration whose only invalid value is one that a higher-precedence source overrides is a don't-care (counted, not asserted)",
			"documented default = the metadata's scalar default; settings whose metadata gives no default are not asserted when no source is present; deprecated settings (lastversion set) are out of scope",
			"list-valued flags are given by repeating the flag (go-flags convention, as for -c); list/map env vars are comma-separated as the README says",
			"${VAR} references are placed in file values and also in values delivered through flags and env vars (README: expansion happens once the config is fully loaded, after processing any command lines); a variable set to the empty string is not generated",
		},
		Gen:  genC29,
		Exec: execC29,
		Extra: func() map[string]any {
			tagged, plain := c29InScope()
			return map[string]any{"settings_with_cmdenv": len(tagged), "string_settings_without_cmdenv": len(plain)}
		},
	})
}
