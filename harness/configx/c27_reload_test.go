package configx

import (
	"context"
	"errors"
	"fmt"
	"io"
	"net/http"
	"os"
	"path/filepath"
	"regexp"
	"runtime"
	"strings"
	"sync"
	"sync/atomic"
	"testing"
	"testing/synctest"
	"time"

	"github.com/honeycombio/refinery/config"
	"github.com/honeycombio/refinery/internal/configwatcher"
	"github.com/honeycombio/refinery/logger"
	"github.com/honeycombio/refinery/pubsub"
	"github.com/honeycombio/refinery/verifharness/vkit"
	"pgregory.net/rapid"
)

// C27: config reloads apply exactly the acceptable changes.
//
// SUT: the real fileConfig (config.NewConfig) with the real
// internal/configwatcher.ConfigWatcher on the real pubsub.LocalPubSub, inside a
// testing/synctest bubble (the watcher's ticker runs on virtual time,
// synctest.Wait() is the quiescence barrier). Oracle: differential against a
// FRESH config.NewConfig(opts, version) on the files as they are at that
// moment - would startup accept them, and which getter values would it give?

type c27Step struct {
	Cfg      string `json:"cfg"`                 // same | touch | valid | comment | warn | warn2 | invalid | garbled | missing
	CfgVar   int    `json:"cfg_var,omitempty"`   // variant of the content (different getter values)
	Rules    string `json:"rules"`               // same | touch | valid | invalid | garbled | missing
	RulesVar int    `json:"rules_var,omitempty"` //
	Trig     string `json:"trig"`                // tick | reload | pubsub | storm | overlap | addlistener
	N        int    `json:"n,omitempty"`         // storm: number of concurrent triggers
	// overlap: a first trigger reads these files and is held; then the files of Cfg2/Rules2 are written
	// and a second trigger runs to completion; then the first is released.
	Cfg2      string `json:"cfg2,omitempty"`
	Cfg2Var   int    `json:"cfg2_var,omitempty"`
	Rules2    string `json:"rules2,omitempty"`
	Rules2Var int    `json:"rules2_var,omitempty"`
	Trig2     string `json:"trig2,omitempty"` // reload | pubsub
	// overlap: where the first trigger is held. "option" = at the scheduling-point option (sources already
	// read). "fetch-captured" = inside the fetch of its first URL source, the response carrying the content
	// of the moment the request was RECEIVED. "fetch-late" = same, but the response carries the content of
	// the moment it is RELEASED. The fetch holds need a URL source and fall back to "option" without one.
	Hold string `json:"hold,omitempty"`
}

type c27Case struct {
	Version   string    `json:"version"` // what main() passes to NewConfig: "dev" (no BuildID) or a release number
	InitCfg   string    `json:"init_cfg"`
	Listeners int       `json:"listeners"`
	// where the sources live: "file" (local path) or "url" (http location served by a harness-owned
	// in-memory transport; refinery fetches URL locations through http.DefaultClient)
	CfgLoc   string    `json:"cfg_loc,omitempty"`
	RulesLoc string    `json:"rules_loc,omitempty"`
	Steps    []c27Step `json:"steps"`
}

const (
	c27Interval   = 10 * time.Second // General.ConfigReloadInterval in every generated config
	c27StormIters = 20
)

// ---------------------------------------------------------------- file contents

func c27CfgContent(kind string, v int) (data []byte, present bool) {
	base := fmt.Sprintf("General:\n  ConfigurationVersion: 2\n  ConfigReloadInterval: %s\nTraces:\n  SendDelay: %ds\nNetwork:\n  ListenAddr: 0.0.0.0:%d\n", c27Interval, v+1, 8100+v)
	switch kind {
	case "valid":
		return []byte(base), true
	case "comment": // same values as valid(v), different bytes
		return []byte(base + "# a comment\n"), true
	case "warn": // deprecated option with a deprecation text
		return []byte(base + fmt.Sprintf("RedisPeerManagement:\n  Prefix: p%d\n", v)), true
	case "warn2": // deprecated option without a deprecation text
		return []byte(base + fmt.Sprintf("RedisPeerManagement:\n  Database: %d\n", v+1)), true
	case "invalid":
		switch v % 3 {
		case 0:
			return []byte(base + "StressRelief:\n  ActivationLevel: banana\n"), true
		case 1:
			return []byte(base + "Traces2:\n  NoSuchGroup: 1\n"), true
		default:
			return []byte(base + "Collection:\n  NoSuchField: 1\n"), true
		}
	case "garbled":
		return []byte("General: [unclosed\n  :::\n"), true
	case "missing":
		return nil, false
	}
	panic("c27: unknown cfg kind " + kind)
}

func c27RulesContent(kind string, v int) (data []byte, present bool) {
	switch kind {
	case "valid":
		s := fmt.Sprintf("RulesVersion: 2\nSamplers:\n  __default__:\n    DeterministicSampler:\n      SampleRate: %d\n", v+1)
		if v%2 == 1 {
			s += fmt.Sprintf("  envA:\n    DynamicSampler:\n      SampleRate: %d\n      FieldList:\n        - http.status_code\n        - f%d\n", v+2, v)
		}
		return []byte(s), true
	case "invalid":
		switch v % 3 {
		case 0:
			return []byte("RulesVersion: 2\nSamplers:\n  __default__:\n    InvalidSampler:\n      SampleRate: 50\n"), true
		case 1:
			return []byte(fmt.Sprintf("RulesVersion: 2\nSamplers:\n  envA:\n    DeterministicSampler:\n      SampleRate: %d\n", v+1)), true // no __default__
		default:
			return []byte("RulesVersion: 3\nSamplers:\n  __default__:\n    DeterministicSampler:\n      SampleRate: 1\n"), true
		}
	case "garbled":
		return []byte("RulesVersion: [2\n ::\n"), true
	case "missing":
		return nil, false
	}
	panic("c27: unknown rules kind " + kind)
}

// ---------------------------------------------------------------- generator

func genC27(t *rapid.T) c27Case {
	c := c27Case{}
	c.Version = rapid.SampledFrom([]string{"dev", "dev", "3.2.2"}).Draw(t, "version")
	c.InitCfg = "valid"
	if c.Version == "dev" && rapid.IntRange(0, 3).Draw(t, "initwarn") == 0 {
		c.InitCfg = rapid.SampledFrom([]string{"warn", "warn2"}).Draw(t, "initkind")
	}
	c.Listeners = rapid.IntRange(1, 3).Draw(t, "listeners")
	c.CfgLoc = rapid.SampledFrom([]string{"file", "file", "file", "url"}).Draw(t, "cfgloc")
	c.RulesLoc = rapid.SampledFrom([]string{"file", "file", "url"}).Draw(t, "rulesloc")
	cfgKinds := []string{"same", "same", "touch", "valid", "valid", "valid", "comment", "warn", "warn2", "invalid", "garbled", "missing"}
	rulesKinds := []string{"same", "same", "same", "touch", "valid", "valid", "invalid", "garbled", "missing"}
	stepGen := rapid.Custom(func(t *rapid.T) c27Step {
		s := c27Step{
			Cfg:      rapid.SampledFrom(cfgKinds).Draw(t, "cfg"),
			CfgVar:   rapid.IntRange(0, 3).Draw(t, "cfgvar"),
			Rules:    rapid.SampledFrom(rulesKinds).Draw(t, "rules"),
			RulesVar: rapid.IntRange(0, 3).Draw(t, "rulesvar"),
		}
		switch k := rapid.IntRange(0, 19).Draw(t, "trig"); {
		case k < 5:
			s.Trig = "reload"
		case k < 9:
			s.Trig = "pubsub"
		case k < 12:
			s.Trig = "tick"
		case k < 14:
			s.Trig = "addlistener"
		case k < 17:
			s.Trig = "storm"
			s.N = rapid.SampledFrom([]int{2, 2, 3, 4, 8}).Draw(t, "n")
		default:
			s.Trig = "overlap"
			s.Trig2 = rapid.SampledFrom([]string{"reload", "pubsub"}).Draw(t, "trig2")
			s.Hold = rapid.SampledFrom([]string{"option", "fetch-captured", "fetch-captured", "fetch-late"}).Draw(t, "hold")
			s.Cfg2 = rapid.SampledFrom([]string{"same", "valid", "valid", "comment", "invalid"}).Draw(t, "cfg2")
			s.Cfg2Var = rapid.IntRange(0, 3).Draw(t, "cfg2var")
			s.Rules2 = rapid.SampledFrom([]string{"same", "same", "valid"}).Draw(t, "rules2")
			s.Rules2Var = rapid.IntRange(0, 3).Draw(t, "rules2var")
		}
		return s
	})
	c.Steps = rapid.SliceOfN(stepGen, 1, 8).Draw(t, "steps")
	// at most one storm per case (each is c27StormIters iterations)
	storms := 0
	for i := range c.Steps {
		if c.Steps[i].Trig == "storm" {
			storms++
			if storms > 1 {
				c.Steps[i].Trig = "reload"
				c.Steps[i].N = 0
			}
		}
	}
	return c
}

// ---------------------------------------------------------------- execution

// c27HookCfg is the Config handed to the watcher: the real Config, except that
// every Reload carries one extra ReloadedConfigDataOption that never touches the
// data and only serves as a scheduling point (files read, validation not started).
type c27HookCfg struct {
	config.Config
	hook func()
}

// c27Trace, when set (debugging only), receives one line per harness-visible event.
var c27Trace func(format string, args ...any)

func c27Tr(format string, args ...any) {
	if c27Trace != nil {
		c27Trace(format, args...)
	}
}

func (w *c27HookCfg) Reload(opts ...config.ReloadedConfigDataOption) error {
	c27Tr("reload enter")
	opts = append(opts, func(*config.ReloadedConfigData) { c27Tr("reload at option"); w.hook() })
	err := w.Config.Reload(opts...)
	c27Tr("reload exit err=%v", err != nil)
	return err
}

type c27Gate struct {
	mu      sync.Mutex
	mode    int // 0 pass, 1 hold everybody, 2 hold the first only
	held    int
	release chan struct{}
	closed  bool
}

func (g *c27Gate) arm(mode int) {
	g.mu.Lock()
	g.mode, g.held, g.release, g.closed = mode, 0, make(chan struct{}), false
	g.mu.Unlock()
}

func (g *c27Gate) open() {
	g.mu.Lock()
	g.mode = 0
	if !g.closed {
		close(g.release)
		g.closed = true
	}
	g.mu.Unlock()
}

func (g *c27Gate) heldCount() int {
	g.mu.Lock()
	defer g.mu.Unlock()
	return g.held
}

func (g *c27Gate) hook() {
	g.mu.Lock()
	mode, ch := g.mode, g.release
	hold := mode == 1 || (mode == 2 && g.held == 0)
	if hold {
		g.held++
	}
	g.mu.Unlock()
	if hold {
		<-ch
	}
}

// c27Quiesce is a non-blocking stand-in for synctest.Wait() for the moments when
// the harness itself keeps a reload parked at the gate: it returns once every
// other goroutine of this bubble is either durably blocked or waiting for a
// sync.Mutex/RWMutex, and reports whether some goroutine waits for a lock.
// synctest.Wait() cannot be used there: an implementation may serialise
// reloads, a trigger then waits for a lock the parked reload holds, and lock
// waits are never "durably blocked", so Wait() would never return. Progress is
// judged from goroutine states only (runtime.Stack), never from real time;
// every goroutine that is neither parked nor lock-blocked is making progress,
// so the loop ends. capped=true means the (very large) poll cap was reached.
var c27HeaderRe = regexp.MustCompile(`(?m)^goroutine (\d+) \[([^\]]*)\]:`)

func c27Quiesce() (lockWaiters bool, capped bool) {
	self := make([]byte, 256)
	self = self[:runtime.Stack(self, false)]
	m := c27HeaderRe.FindSubmatch(self)
	if m == nil {
		panic("c27: cannot parse own goroutine header: " + string(self))
	}
	selfID := string(m[1])
	bubble := ""
	if i := strings.Index(string(m[2]), "synctest bubble "); i >= 0 {
		bubble = string(m[2])[i:]
	} else {
		panic("c27Quiesce called outside a bubble")
	}
	buf := make([]byte, 1<<20)
	for poll := 0; poll < 400000; poll++ {
		n := runtime.Stack(buf, true)
		for n == len(buf) {
			buf = make([]byte, 2*len(buf))
			n = runtime.Stack(buf, true)
		}
		busy, locked := false, false
		for _, h := range c27HeaderRe.FindAllSubmatch(buf[:n], -1) {
			state := string(h[2])
			if string(h[1]) == selfID {
				continue
			}
			if !strings.Contains(state, "synctest bubble ") {
				// A goroutine that was created but has not run yet is printed WITHOUT its bubble
				// annotation ("goroutine N [runnable]:"), so a just-spawned trigger must not be taken
				// for a foreign goroutine: anything unannotated that is ready to run counts as working.
				// (Foreign goroutines of the test binary are parked in waits, which are ignored.)
				if strings.HasPrefix(state, "runnable") || strings.HasPrefix(state, "running") {
					busy = true
				}
				continue
			}
			if !strings.HasSuffix(state, bubble) {
				continue
			}
			switch {
			case strings.HasPrefix(state, "running"), strings.HasPrefix(state, "runnable"), strings.HasPrefix(state, "syscall"):
				busy = true
			case strings.Contains(state, "(durable)"):
			case strings.HasPrefix(state, "sync."), strings.HasPrefix(state, "semacquire"):
				locked = true
			default: // IO wait, GC assist, ...: transient
				busy = true
			}
		}
		if !busy {
			if c27Trace != nil {
				c27Tr("quiesce return poll=%d dump:\n%s", poll, string(buf[:n]))
			}
			return locked, false
		}
		runtime.Gosched()
	}
	return false, true
}

// c27Transport serves the URL sources of a case from memory (no sockets, so a
// held fetch is a durably blocked channel receive inside the bubble). One
// request can be held: arm(mode) makes the NEXT request wait for release().
type c27Transport struct {
	mu      sync.Mutex
	content map[string]string // URL path -> body; absent = unreachable
	mode    int               // 0 none, 1 hold + serve content captured at receipt, 2 hold + serve content current at release
	held    int
	release chan struct{}
	closed  bool
}

func (rt *c27Transport) set(path string, data []byte, present bool) {
	rt.mu.Lock()
	if present {
		rt.content[path] = string(data)
	} else {
		delete(rt.content, path)
	}
	rt.mu.Unlock()
}

func (rt *c27Transport) arm(mode int) {
	rt.mu.Lock()
	rt.mode, rt.held, rt.release, rt.closed = mode, 0, make(chan struct{}), false
	rt.mu.Unlock()
}

func (rt *c27Transport) open() {
	rt.mu.Lock()
	rt.mode = 0
	if rt.release != nil && !rt.closed {
		close(rt.release)
		rt.closed = true
	}
	rt.mu.Unlock()
}

func (rt *c27Transport) heldCount() int {
	rt.mu.Lock()
	defer rt.mu.Unlock()
	return rt.held
}

func (rt *c27Transport) RoundTrip(req *http.Request) (*http.Response, error) {
	rt.mu.Lock()
	body, ok := rt.content[req.URL.Path]
	mode, ch := rt.mode, rt.release
	c27Tr("fetch %s mode=%d len=%d", req.URL.Path, mode, len(body))
	if mode != 0 {
		rt.mode = 0 // only this request
		rt.held++
	}
	rt.mu.Unlock()
	if mode != 0 {
		<-ch
		if mode == 2 {
			rt.mu.Lock()
			body, ok = rt.content[req.URL.Path]
			rt.mu.Unlock()
		}
	}
	if !ok {
		return nil, errors.New("c27 transport: connection refused")
	}
	return &http.Response{
		Status: "200 OK", StatusCode: 200, Proto: "HTTP/1.1", ProtoMajor: 1, ProtoMinor: 1,
		Header:        http.Header{"Content-Type": []string{"application/yaml"}},
		Body:          io.NopCloser(strings.NewReader(body)),
		ContentLength: int64(len(body)),
		Request:       req,
	}, nil
}

type c27Listener struct {
	calls  atomic.Int64
	mu     sync.Mutex
	hashes [][2]string // arguments of each call
	seen   [][2]string // GetHashes() as seen from inside the callback
}

type c27Obs struct {
	Step, Iter     int
	Kind           string // seq | storm | overlap
	Label          string // file state description
	Trig           string
	FreshAccepted  bool
	FreshWarn      bool
	FreshErr       string
	FreshSnap      map[string]string
	Changed        bool // file content differs from the content the model believes applied
	PrevSnap       map[string]string
	SutSnap        map[string]string
	Calls          []int64 // per listener, delta in this step
	LastArgs       [][2]string
	LastSeen       [][2]string
	ReloadErrs     []string
	HeldSnapOK     bool // overlap only: the held content was itself acceptable
	HeldSnap       map[string]string
	Triggers       int
	ListenersAtEnd int
	AltSnaps       []map[string]string // overlap with a held fetch: what loads of the mixed reads (one source old, one new) give
	Serialised     bool // while a reload was parked at the gate, another trigger waited for a lock
	Capped         bool
}

type c27Run struct {
	InitAccepted bool
	InitErr      string
	Obs          []c27Obs
}

var c27T *testing.T

func c27SnapAll(c config.Config) map[string]string {
	m := cxSnapshot(c)
	cxSnapshotRules(c, m)
	return m
}

func c27Execute(c c27Case) (run c27Run) {
	dir, err := os.MkdirTemp("", "c27-")
	if err != nil {
		panic(err)
	}
	defer os.RemoveAll(dir)
	cfgPath := filepath.Join(dir, "config.yaml")
	rulesPath := filepath.Join(dir, "rules.yaml")
	// URL sources: refinery fetches them with http.DefaultClient; for the duration of the case the
	// default transport is the case's in-memory one (cases run sequentially)
	rt := &c27Transport{content: map[string]string{}}
	savedTransport := http.DefaultTransport
	http.DefaultTransport = rt
	defer func() { http.DefaultTransport = savedTransport }()
	urlPaths := map[string]string{}
	if c.CfgLoc == "url" {
		cfgPath = "http://c27.invalid/c27/config.yaml"
		urlPaths[cfgPath] = "/c27/config.yaml"
	}
	if c.RulesLoc == "url" {
		rulesPath = "http://c27.invalid/c27/rules.yaml"
		urlPaths[rulesPath] = "/c27/rules.yaml"
	}
	anyURL := c.CfgLoc == "url" || c.RulesLoc == "url"
	args := []string{"refinery", "-c", cfgPath, "-r", rulesPath}

	write := func(path string, data []byte, present bool) {
		c27Tr("harness write %s len=%d present=%v", filepath.Base(path), len(data), present)
		if up, ok := urlPaths[path]; ok {
			rt.set(up, data, present)
			return
		}
		if !present {
			os.Remove(path)
			return
		}
		if err := os.WriteFile(path, data, 0o644); err != nil {
			panic(err)
		}
	}
	type content struct {
		cfg, rules     string
		cfgOK, rulesOK bool
	}
	var onDisk content
	setCfg := func(kind string, v int, nonce string) {
		switch kind {
		case "same":
			return
		case "touch":
			write(cfgPath, []byte(onDisk.cfg), onDisk.cfgOK)
			return
		}
		d, ok := c27CfgContent(kind, v)
		if ok && nonce != "" && kind != "garbled" {
			d = append(d, []byte("# "+nonce+"\n")...)
		}
		write(cfgPath, d, ok)
		onDisk.cfg, onDisk.cfgOK = string(d), ok
	}
	setRules := func(kind string, v int, nonce string) {
		switch kind {
		case "same":
			return
		case "touch":
			write(rulesPath, []byte(onDisk.rules), onDisk.rulesOK)
			return
		}
		d, ok := c27RulesContent(kind, v)
		if ok && nonce != "" && kind != "garbled" {
			d = append(d, []byte("# "+nonce+"\n")...)
		}
		write(rulesPath, d, ok)
		onDisk.rules, onDisk.rulesOK = string(d), ok
	}

	fresh := func() (config.Config, bool, bool, string) {
		fc, acc, et := cxLoad(args, c.Version)
		return fc, acc, acc && et != "", et
	}

	setCfg(c.InitCfg, 0, "")
	setRules("valid", 0, "")
	opts, err := config.NewCmdEnvOptions(args)
	if err != nil {
		panic(err)
	}
	sut, err := config.NewConfig(opts, c.Version)
	if sut == nil {
		run.InitErr = fmt.Sprint(err)
		return run
	}
	run.InitAccepted = true
	applied := onDisk

	gate := &c27Gate{release: make(chan struct{})}
	hooked := &c27HookCfg{Config: sut, hook: gate.hook}
	ps := &pubsub.LocalPubSub{Config: sut}
	ps.Start()
	watcher := &configwatcher.ConfigWatcher{Config: hooked, PubSub: ps, Logger: &logger.NullLogger{}}
	watcher.Start()
	synctest.Wait() // the monitor goroutine creates its own done channel; Stop() before that would leak it
	topic := ps.FormatTopic(configwatcher.ConfigPubsubTopic)

	var listeners []*c27Listener
	addListener := func() {
		l := &c27Listener{}
		listeners = append(listeners, l)
		sut.RegisterReloadCallback(func(ch, rh string) {
			l.calls.Add(1)
			a, b := sut.GetHashes()
			l.mu.Lock()
			l.hashes = append(l.hashes, [2]string{ch, rh})
			l.seen = append(l.seen, [2]string{a, b})
			l.mu.Unlock()
		})
	}
	for i := 0; i < c.Listeners; i++ {
		addListener()
	}

	var errMu sync.Mutex
	var reloadErrs []string
	doReload := func() {
		if err := hooked.Reload(); err != nil {
			errMu.Lock()
			reloadErrs = append(reloadErrs, err.Error())
			errMu.Unlock()
		}
	}
	publish := func() {
		ps.Publish(context.Background(), topic, time.Now().Format(time.RFC3339))
	}
	fire := func(trig string) {
		switch trig {
		case "reload":
			doReload()
		case "pubsub":
			publish()
		case "tick":
			time.Sleep(c27Interval * 12 / 10)
		}
	}

	counts := func() []int64 {
		out := make([]int64, len(listeners))
		for i, l := range listeners {
			out[i] = l.calls.Load()
		}
		return out
	}
	observe := func(o *c27Obs, before []int64) {
		synctest.Wait()
		o.SutSnap = c27SnapAll(sut)
		after := counts()
		for i := range after {
			var b int64
			if i < len(before) {
				b = before[i]
			}
			o.Calls = append(o.Calls, after[i]-b)
		}
		for _, l := range listeners {
			l.mu.Lock()
			if n := len(l.hashes); n > 0 {
				o.LastArgs = append(o.LastArgs, l.hashes[n-1])
				o.LastSeen = append(o.LastSeen, l.seen[n-1])
			} else {
				o.LastArgs = append(o.LastArgs, [2]string{})
				o.LastSeen = append(o.LastSeen, [2]string{})
			}
			l.mu.Unlock()
		}
		errMu.Lock()
		o.ReloadErrs = append([]string(nil), reloadErrs...)
		reloadErrs = nil
		errMu.Unlock()
		o.ListenersAtEnd = len(listeners)
	}
	// after judging material is recorded, bring the model in line with what the SUT holds
	resync := func(o *c27Obs) bool {
		switch {
		case len(cxDiffKeys(o.SutSnap, o.PrevSnap)) == 0:
			return true // nothing applied: model keeps its belief
		case o.FreshSnap != nil && len(cxDiffKeys(o.SutSnap, o.FreshSnap)) == 0:
			applied = onDisk
			return true
		}
		return false
	}

	prev := c27SnapAll(sut)
	for si, st := range c.Steps {
		if st.Trig == "addlistener" {
			addListener()
			continue
		}
		label := fmt.Sprintf("cfg=%s/%d rules=%s/%d", st.Cfg, st.CfgVar, st.Rules, st.RulesVar)
		switch st.Trig {
		case "storm":
			iters := c27StormIters
			for it := 0; it < iters; it++ {
				nonce := fmt.Sprintf("storm %d.%d", si, it)
				setCfg(st.Cfg, st.CfgVar, nonce)
				setRules(st.Rules, st.RulesVar, nonce)
				o := c27Obs{Step: si, Iter: it, Kind: "storm", Label: label, Trig: fmt.Sprintf("storm/%d", st.N), PrevSnap: prev, Triggers: st.N}
				fc, acc, warn, et := fresh()
				o.FreshAccepted, o.FreshWarn, o.FreshErr = acc, warn, et
				if acc {
					o.FreshSnap = c27SnapAll(fc)
				}
				o.Changed = onDisk != applied
				before := counts()
				gate.arm(1)
				for k := 0; k < st.N; k++ {
					if k%2 == 0 {
						go doReload()
					} else {
						publish()
					}
				}
				// every trigger has read the files and waits at the gate - or, if the implementation
				// serialises reloads, one is parked at the gate and the others wait for its lock
				o.Serialised, o.Capped = c27Quiesce()
				gate.open()
				observe(&o, before)
				run.Obs = append(run.Obs, o)
				if !resync(&o) {
					goto done
				}
				prev = o.SutSnap
				// a state that does not change between iterations needs no repetition
				if (st.Cfg == "same" || st.Cfg == "touch" || st.Cfg == "garbled" || st.Cfg == "missing") &&
					(st.Rules == "same" || st.Rules == "touch" || st.Rules == "garbled" || st.Rules == "missing") {
					break
				}
			}
		case "overlap":
			// first trigger reads content B and is held
			setCfg(st.Cfg, st.CfgVar, "")
			setRules(st.Rules, st.RulesVar, "")
			o := c27Obs{Step: si, Kind: "overlap", Trig: "overlap/" + st.Trig2, PrevSnap: prev, Triggers: 2,
				Label: label + fmt.Sprintf(" then cfg=%s/%d rules=%s/%d", st.Cfg2, st.Cfg2Var, st.Rules2, st.Rules2Var)}
			if hc, acc, _, _ := fresh(); acc {
				o.HeldSnapOK, o.HeldSnap = true, c27SnapAll(hc)
			} else if hc, acc, _ := cxLoad(args); acc {
				// only used to name a deviation: what a version-less load makes of the held content
				o.HeldSnapOK, o.HeldSnap = true, c27SnapAll(hc)
			}
			heldContent := onDisk
			before := counts()
			hold := st.Hold
			if hold == "" || !anyURL {
				hold = "option"
			}
			o.Trig = "overlap[" + hold + "]/" + st.Trig2
			switch hold {
			case "fetch-captured":
				rt.arm(1)
			case "fetch-late":
				rt.arm(2)
			default:
				gate.arm(2)
			}
			go doReload()
			c27Quiesce()
			c27Tr("quiesce#1 done gateHeld=%d rtHeld=%d", gate.heldCount(), rt.heldCount())
			if hold == "option" && gate.heldCount() == 0 {
				// unreadable files: the first reload failed before its scheduling point; nothing is held
				gate.open()
			}
			if hold != "option" && rt.heldCount() == 0 {
				// the first reload ended before it fetched a URL source
				rt.open()
			}
			// files move on to content C; a second trigger runs to completion
			setCfg(st.Cfg2, st.Cfg2Var, "")
			setRules(st.Rules2, st.Rules2Var, "")
			fc, acc, warn, et := fresh()
			o.FreshAccepted, o.FreshWarn, o.FreshErr = acc, warn, et
			if acc {
				o.FreshSnap = c27SnapAll(fc)
			}
			o.Changed = onDisk != applied
			if hold != "option" {
				// a reload held inside a fetch may legitimately have read one source before and the other
				// after the change: record what such mixed reads load as
				// (loaded from scratch files: the live sources only ever hold B, then C)
				mixCfg, mixRules := filepath.Join(dir, "mix-config.yaml"), filepath.Join(dir, "mix-rules.yaml")
				mixArgs := []string{"refinery", "-c", mixCfg, "-r", mixRules}
				for _, mix := range []content{
					{cfg: heldContent.cfg, cfgOK: heldContent.cfgOK, rules: onDisk.rules, rulesOK: onDisk.rulesOK},
					{cfg: onDisk.cfg, cfgOK: onDisk.cfgOK, rules: heldContent.rules, rulesOK: heldContent.rulesOK},
				} {
					write(mixCfg, []byte(mix.cfg), mix.cfgOK)
					write(mixRules, []byte(mix.rules), mix.rulesOK)
					if mc, acc, _ := cxLoad(mixArgs, c.Version); acc {
						o.AltSnaps = append(o.AltSnaps, c27SnapAll(mc))
					} else if mc, acc, _ := cxLoad(mixArgs); acc {
						o.AltSnaps = append(o.AltSnaps, c27SnapAll(mc))
					}
				}
			}
			// the second trigger runs on its own goroutine: with a serialising implementation it cannot
			// finish before the first is released; then they finish in the order the implementation imposes
			if st.Trig2 == "pubsub" {
				publish()
			} else {
				go doReload()
			}
			o.Serialised, o.Capped = c27Quiesce()
			gate.open()
			rt.open()
			observe(&o, before)
			run.Obs = append(run.Obs, o)
			if !resync(&o) {
				goto done
			}
			prev = o.SutSnap
		default:
			setCfg(st.Cfg, st.CfgVar, "")
			setRules(st.Rules, st.RulesVar, "")
			o := c27Obs{Step: si, Kind: "seq", Label: label, Trig: st.Trig, PrevSnap: prev, Triggers: 1}
			fc, acc, warn, et := fresh()
			o.FreshAccepted, o.FreshWarn, o.FreshErr = acc, warn, et
			if acc {
				o.FreshSnap = c27SnapAll(fc)
			}
			o.Changed = onDisk != applied
			before := counts()
			fire(st.Trig)
			observe(&o, before)
			run.Obs = append(run.Obs, o)
			if !resync(&o) {
				goto done
			}
			prev = o.SutSnap
		}
	}
done:
	gate.open()
	rt.open()
	watcher.Stop()
	ps.Stop()
	synctest.Wait()
	return run
}

func c27InSnaps(snap map[string]string, alts []map[string]string) bool {
	for _, a := range alts {
		if len(cxDiffKeys(snap, a)) == 0 {
			return true
		}
	}
	return false
}

func c27ErrClass(errText string) string {
	switch {
	case strings.Contains(errText, "deprecated and removed") || strings.Contains(errText, "was deprecated"):
		return "deprecated-option-removed-in-this-version"
	case strings.Contains(errText, "Validation failed"):
		return "validation-error"
	case strings.Contains(errText, "no such file"):
		return "unreadable-file"
	}
	return "unparsable-file"
}

func execC27(c c27Case) vkit.Result {
	var res vkit.Result
	restore := cxEnvScope([]string{"REFINERY_", "HONEYCOMB_CONFIG_KEY"}, nil)
	defer restore()
	var run c27Run
	cxBubble(c27T, func() { run = c27Execute(c) })
	if !run.InitAccepted {
		res.Class("init-rejected")
		return res
	}
	res.Class("version=" + c.Version)
	res.Class(fmt.Sprintf("sources:cfg=%s,rules=%s", map[bool]string{true: "url", false: "file"}[c.CfgLoc == "url"], map[bool]string{true: "url", false: "file"}[c.RulesLoc == "url"]))
	for _, o := range run.Obs {
		res.Class("trigger:" + strings.Split(o.Trig, "/")[0])
		where := fmt.Sprintf("step %d iter %d [%s] trigger=%s", o.Step, o.Iter, o.Label, o.Trig)
		expectApply := o.FreshAccepted && o.Changed
		switch {
		case expectApply && o.FreshWarn:
			res.Class("expect:apply(warnings)")
			res.NonTrivial = true
		case expectApply:
			res.Class("expect:apply")
		case o.Changed:
			res.Class("expect:keep(startup-would-reject)")
		default:
			res.Class("expect:keep(unchanged)")
		}
		if o.Kind != "seq" {
			res.NonTrivial = true
			if o.Serialised {
				res.Class(o.Kind + ":triggers-waited-for-a-lock(serialised)")
			} else {
				res.Class(o.Kind + ":triggers-interleaved")
			}
			if o.Capped {
				res.Class("quiesce-poll-cap-reached")
			}
		}
		sameAsPrev := len(cxDiffKeys(o.SutSnap, o.PrevSnap)) == 0
		sameAsFresh := o.FreshSnap != nil && len(cxDiffKeys(o.SutSnap, o.FreshSnap)) == 0
		var maxCalls, minCalls int64 = 0, 1 << 40
		for _, n := range o.Calls {
			if n > maxCalls {
				maxCalls = n
			}
			if n < minCalls {
				minCalls = n
			}
		}
		if len(o.Calls) == 0 {
			minCalls = 0
		}

		if o.Kind == "overlap" {
			// only the end state is asserted: once both triggers are done the running
			// configuration must be the one on disk, if startup accepts that one
			switch {
			case o.FreshAccepted && !sameAsFresh:
				if o.HeldSnapOK && len(cxDiffKeys(o.SutSnap, o.HeldSnap)) == 0 && (!sameAsPrev || maxCalls >= 2) {
					res.Violate("C27/overlap/stale-content-wins", "%s: a reload that had read the EARLIER content (and was then delayed) applied it after the later content had been applied; files now hold the later content, the running config differs from a fresh load in %v; listener calls %v", where, cxDiffKeys(o.SutSnap, o.FreshSnap), o.Calls)
				} else if o.FreshWarn && sameAsPrev {
					res.Violate("C27/change-not-applied/startup-accepts-with-warnings", "%s: startup accepts the files (warnings: %q), reload left the old config (reload errors %q)", where, o.FreshErr, o.ReloadErrs)
				} else {
					res.Violate("C27/overlap/final-config-not-current", "%s: after both triggers completed the running config differs from a fresh load in %v", where, cxDiffKeys(o.SutSnap, o.FreshSnap))
				}
			case !o.FreshAccepted && !sameAsPrev && !(o.HeldSnapOK && len(cxDiffKeys(o.SutSnap, o.HeldSnap)) == 0) && !c27InSnaps(o.SutSnap, o.AltSnaps):
				res.Violate("C27/rejected-change-applied/"+c27ErrClass(o.FreshErr), "%s: startup rejects the files (%q) but getters moved: %v", where, o.FreshErr, cxDiffKeys(o.SutSnap, o.PrevSnap))
			}
			// notifications: two contents were on disk, so at most two changes were applied, every
			// listener hears of each of them, and an applied change is never silent
			switch {
			case minCalls != maxCalls:
				res.Violate("C27/overlap/listeners-notified-unequally", "%s: listener call counts %v", where, o.Calls)
			case maxCalls > 2:
				res.Violate("C27/overlap/more-notifications-than-contents", "%s: listener call counts %v for two file contents", where, o.Calls)
			case !sameAsPrev && maxCalls == 0:
				res.Violate("C27/overlap/applied-without-notification", "%s: getters moved (%v) but no listener was called", where, cxDiffKeys(o.SutSnap, o.PrevSnap))
			}
			continue
		}

		conc := ""
		if o.Kind == "storm" {
			conc = "concurrent/"
		}
		if expectApply {
			switch {
			case sameAsFresh:
				// applied; exactly one notification per listener, carrying the new hashes
				if minCalls != 1 || maxCalls != 1 {
					n := maxCalls
					if minCalls < 1 {
						n = minCalls
					}
					res.Violate(fmt.Sprintf("C27/%sapplied-change-notified-%d-times", conc, n), "%s: change applied, listener call counts %v (want exactly 1 each; %d triggers)", where, o.Calls, o.Triggers)
				} else {
					wantC, wantR := o.FreshSnap["~hash:config"], o.FreshSnap["~hash:rules"]
					for i := range o.LastArgs {
						if o.LastArgs[i] != [2]string{wantC, wantR} {
							res.Violate("C27/applied/callback-arguments-are-not-the-new-hashes", "%s: listener %d got %v, fresh load has (%s,%s)", where, i, o.LastArgs[i], wantC, wantR)
						} else if o.LastSeen[i] != o.LastArgs[i] {
							res.Violate("C27/applied/getters-inside-callback-still-old", "%s: listener %d was told %v but GetHashes() inside the callback said %v", where, i, o.LastArgs[i], o.LastSeen[i])
						}
					}
				}
			case sameAsPrev:
				kind := "startup-accepts-cleanly"
				if o.FreshWarn {
					kind = "startup-accepts-with-warnings"
				}
				pfx := conc // the warnings root cause does not depend on the trigger; a cleanly accepted change lost in a storm does
				if o.FreshWarn {
					pfx = ""
				}
				res.Violate("C27/"+pfx+"change-not-applied/"+kind, "%s: content changed and a fresh startup accepts it (warnings: %q) but every getter kept its old value; listener calls %v; reload errors %q", where, o.FreshErr, o.Calls, o.ReloadErrs)
			default:
				res.Violate("C27/"+conc+"partially-applied", "%s: running config is neither the old one nor the fresh one; differs from fresh in %v", where, cxDiffKeys(o.SutSnap, o.FreshSnap))
			}
		} else {
			if !sameAsPrev {
				if o.Changed {
					res.Violate("C27/rejected-change-applied/"+c27ErrClass(o.FreshErr), "%s: startup rejects these files (%q) but getters moved: %v", where, o.FreshErr, cxDiffKeys(o.SutSnap, o.PrevSnap))
				} else {
					res.Violate("C27/"+conc+"unchanged-content/getters-moved", "%s: %v", where, cxDiffKeys(o.SutSnap, o.PrevSnap))
				}
			} else if maxCalls != 0 {
				res.Violate("C27/"+conc+"listener-notified-without-applied-change", "%s: listener call counts %v", where, o.Calls)
			}
		}
	}
	return res
}

func TestC27(t *testing.T) {
	c27T = t
	vkit.Run(t, vkit.Spec[c27Case]{
		ID: "C27",
		Rule: "rapid-generated histories (1-8 steps) over one config source and one rules source, each a local file or (in ~25%/33% of cases) an http URL served by a harness-owned in-memory transport installed as http.DefaultTransport for the case; per step the config file becomes {same, rewritten, valid variant, comment-only change, deprecated option with/without deprecation text, invalid, unparsable, missing} " +
			"and the rules file {same, rewritten, valid variant, invalid, unparsable, missing}, followed by a trigger {the watcher's real ticker (virtual time), a direct Reload as the ticker would do, a cfg_update pubsub message, " +
			"a storm of 2-8 concurrent triggers (alternating direct Reload / pubsub message, real goroutines held at a barrier after reading the files and released together; 20 iterations with a fresh change each), " +
			"an overlap (first trigger reads content B and is held - at the scheduling-point option, or inside the fetch of a URL source with the response carrying the content captured when the request was received, or the content current at release -, sources move on to C, second trigger runs until it completes or waits for a lock, first released)}; 1-3 listeners plus listeners registered mid-history; startup version 'dev' or '3.2.2'. " +
			"Real fileConfig + real ConfigWatcher + LocalPubSub inside a synctest bubble. After every trigger, judged against a FRESH NewConfig(opts, version) on the files of that moment. " +
			"Non-trivial: a step whose files startup accepts only with warnings, or a concurrent/overlapping trigger. Distinct = distinct case JSON.",
		Assumptions: []string{
			"'startup would accept' = config.NewConfig(opts, version) returns a Config (possibly with a warning error), with the version string main() passes: 'dev' for a build without BuildID, else the release number",
			"'content changed' = file bytes differ from the bytes of the last applied configuration (a comment-only edit is a change; rewriting identical bytes is not)",
			"a ReloadedConfigDataOption that never touches the data is used as a scheduling point inside the real Reload (after the files were read, before validation); it is the only instrumentation",
			"URL sources are fetched by refinery through http.DefaultClient; swapping http.DefaultTransport for an in-memory RoundTripper keeps the whole fetch inside the bubble (a held response is a durably blocked channel receive); an unreachable URL stands for a missing file",
			"an implementation may serialise reloads: while a reload is parked at the scheduling point the harness never blocks on another reload; it polls goroutine states (parked / waiting for a lock / still working) and releases the parked reload as soon as nobody is working, so the triggers finish in whatever order the implementation imposes",
			"the watcher's ticker is exercised on synctest virtual time; extra ticks on unchanged files must be no-ops",
			"storm verdicts are schedule-dependent: a double or lost notification is reported when observed in one of the 20 iterations, silence proves nothing",
			"overlap steps assert the end state (running config = files on disk when startup accepts them) and only bounds on notifications (equal for all listeners, at most 2, at least 1 if getters moved)",
		},
		Gen:  genC27,
		Exec: execC27,
	})
}
