package configx

// Shared helpers of the configx engine (properties C29 and C27).
//
// Everything here observes refinery only through exported API: config.NewCmdEnvOptions,
// config.NewConfig, the config.Config getters, config.LoadConfigMetadata (the documented
// names, types and defaults) and the exported group struct types (yaml / cmdenv tags).

import (
	"encoding/json"
	"fmt"
	"os"
	"reflect"
	"runtime/debug"
	"sort"
	"strings"
	"sync"
	"testing"
	"testing/synctest"
	"time"

	"github.com/honeycombio/refinery/config"
	"gopkg.in/yaml.v3"
)

// ---------------------------------------------------------------- bubble

// cxBubble runs f inside a testing/synctest bubble. A panic inside the bubble
// is captured and re-raised outside (vkit turns it into harness/panic).
func cxBubble(t *testing.T, f func()) {
	var pv any
	var stack string
	synctest.Test(t, func(*testing.T) {
		defer func() {
			if p := recover(); p != nil {
				pv = p
				stack = string(debug.Stack())
			}
		}()
		f()
	})
	if pv != nil {
		panic(fmt.Sprintf("panic inside bubble: %v\n%s", pv, stack))
	}
}

// ---------------------------------------------------------------- process environment

// cxEnvScope sets the process environment for one case: every variable whose
// name starts with one of the prefixes is removed, then vars is applied. The
// returned function restores the previous state. Cases run sequentially.
func cxEnvScope(prefixes []string, vars map[string]string) (restore func()) {
	saved := map[string]string{}
	for _, kv := range os.Environ() {
		i := strings.IndexByte(kv, '=')
		if i <= 0 {
			continue
		}
		k := kv[:i]
		for _, p := range prefixes {
			if strings.HasPrefix(k, p) {
				saved[k] = kv[i+1:]
				os.Unsetenv(k)
				break
			}
		}
	}
	for k, v := range vars {
		os.Setenv(k, v)
	}
	return func() {
		for k := range vars {
			os.Unsetenv(k)
		}
		for k, v := range saved {
			os.Setenv(k, v)
		}
	}
}

// ---------------------------------------------------------------- settings table

// cxLevel is one cmdenv precedence level of a setting (the first cmdenv tag is
// the specific one, the second the shared fallback such as HoneycombAPIKey).
type cxLevel struct {
	CmdField string   // name of the config.CmdEnv field ("" if only documented)
	Flags    []string // long flag names (struct tag first, then documented)
	Envs     []string // env var names (struct tag first, then documented-only aliases)
	DocOnly  map[string]bool
	Undoc    bool // the documentation does not say where this option ranks among the setting's other options
}

type cxSetting struct {
	Path      string
	Group     string
	Field     string // yaml name
	GoField   string
	MetaType  string
	Class     string // hostport url apikey alnum version choice free memsize | list:<class> | map | other
	Choices   []string
	Default   any // documented default (metadata)
	HasMeta   bool
	Levels    []cxLevel
	StringLike bool // string / []string / map[string]string in Go and string-ish in metadata
	GoType    reflect.Type
	get       func(config.Config) any
}

type cxGroupDef struct {
	Name   string
	Type   reflect.Type
	Whole  func(config.Config) any            // struct getter, or nil
	Fields map[string]func(config.Config) any // per-field getters by Go field name
}

var cxGroupDefs = []cxGroupDef{
	{Name: "General", Type: reflect.TypeOf(config.GeneralConfig{}), Whole: func(c config.Config) any { return c.GetGeneralConfig() }},
	{Name: "Network", Type: reflect.TypeOf(config.NetworkConfig{}), Fields: map[string]func(config.Config) any{
		"ListenAddr":        func(c config.Config) any { return c.GetListenAddr() },
		"PeerListenAddr":    func(c config.Config) any { return c.GetPeerListenAddr() },
		"HoneycombAPI":      func(c config.Config) any { return c.GetHoneycombAPI() },
		"HTTPIdleTimeout":   func(c config.Config) any { return c.GetHTTPIdleTimeout() },
		"AdditionalHeaders": func(c config.Config) any { return c.GetAdditionalHeaders() },
	}},
	{Name: "OpAMP", Type: reflect.TypeOf(config.OpAMPConfig{}), Whole: func(c config.Config) any { return c.GetOpAMPConfig() }},
	{Name: "AccessKeys", Type: reflect.TypeOf(config.AccessKeyConfig{}), Whole: func(c config.Config) any { return c.GetAccessKeyConfig() }},
	{Name: "RefineryTelemetry", Type: reflect.TypeOf(config.RefineryTelemetryConfig{}), Fields: map[string]func(config.Config) any{
		"AddRuleReasonToTrace":   func(c config.Config) any { return c.GetAddRuleReasonToTrace() },
		"AddSpanCountToRoot":     func(c config.Config) any { return c.GetAddSpanCountToRoot() },
		"AddCountsToRoot":        func(c config.Config) any { return c.GetAddCountsToRoot() },
		"AddHostMetadataToTrace": func(c config.Config) any { return c.GetAddHostMetadataToTrace() },
	}},
	{Name: "Traces", Type: reflect.TypeOf(config.TracesConfig{}), Whole: func(c config.Config) any { return c.GetTracesConfig() }},
	{Name: "Debugging", Type: reflect.TypeOf(config.DebuggingConfig{}), Fields: map[string]func(config.Config) any{
		"DebugServiceAddr":      func(c config.Config) any { return c.GetDebugServiceAddr() },
		"QueryAuthToken":        func(c config.Config) any { return c.GetQueryAuthToken() },
		"AdditionalErrorFields": func(c config.Config) any { return c.GetAdditionalErrorFields() },
		"DryRun":                func(c config.Config) any { return c.GetIsDryRun() },
	}},
	{Name: "Logger", Type: reflect.TypeOf(config.LoggerConfig{}), Fields: map[string]func(config.Config) any{
		"Type":  func(c config.Config) any { return c.GetLoggerType() },
		"Level": func(c config.Config) any { return c.GetLoggerLevel() },
	}},
	{Name: "HoneycombLogger", Type: reflect.TypeOf(config.HoneycombLoggerConfig{}), Whole: func(c config.Config) any { return c.GetHoneycombLoggerConfig() }},
	{Name: "StdoutLogger", Type: reflect.TypeOf(config.StdoutLoggerConfig{}), Whole: func(c config.Config) any { return c.GetStdoutLoggerConfig() }},
	{Name: "PrometheusMetrics", Type: reflect.TypeOf(config.PrometheusMetricsConfig{}), Whole: func(c config.Config) any { return c.GetPrometheusMetricsConfig() }},
	{Name: "OTelMetrics", Type: reflect.TypeOf(config.OTelMetricsConfig{}), Whole: func(c config.Config) any { return c.GetOTelMetricsConfig() }},
	{Name: "OTelTracing", Type: reflect.TypeOf(config.OTelTracingConfig{}), Whole: func(c config.Config) any { return c.GetOTelTracingConfig() }},
	{Name: "PeerManagement", Type: reflect.TypeOf(config.PeerManagementConfig{}), Fields: map[string]func(config.Config) any{
		"Type":                    func(c config.Config) any { return c.GetPeerManagementType() },
		"Identifier":              func(c config.Config) any { return c.GetRedisIdentifier() },
		"IdentifierInterfaceName": func(c config.Config) any { return c.GetIdentifierInterfaceName() },
		"UseIPV6Identifier":       func(c config.Config) any { return c.GetUseIPV6Identifier() },
		"Peers":                   func(c config.Config) any { return c.GetPeers() },
	}},
	{Name: "RedisPeerManagement", Type: reflect.TypeOf(config.RedisPeerManagementConfig{}), Whole: func(c config.Config) any { return c.GetRedisPeerManagement() }},
	{Name: "Collection", Type: reflect.TypeOf(config.CollectionConfig{}), Whole: func(c config.Config) any { return c.GetCollectionConfig() }},
	{Name: "Specialized", Type: reflect.TypeOf(config.SpecializedConfig{}), Fields: map[string]func(config.Config) any{
		"EnvironmentCacheTTL":       func(c config.Config) any { return c.GetEnvironmentCacheTTL() },
		"CompressPeerCommunication": func(c config.Config) any { return c.GetCompressPeerCommunication() },
		"AdditionalAttributes":      func(c config.Config) any { return c.GetAdditionalAttributes() },
	}},
	{Name: "IDFields", Type: reflect.TypeOf(config.IDFieldsConfig{}), Fields: map[string]func(config.Config) any{
		"TraceNames":  func(c config.Config) any { return c.GetTraceIdFieldNames() },
		"ParentNames": func(c config.Config) any { return c.GetParentIdFieldNames() },
	}},
	{Name: "GRPCServerParameters", Type: reflect.TypeOf(config.GRPCServerParameters{}), Whole: func(c config.Config) any { return c.GetGRPCConfig() }},
	{Name: "SampleCache", Type: reflect.TypeOf(config.SampleCacheConfig{}), Whole: func(c config.Config) any { return c.GetSampleCacheConfig() }},
	{Name: "StressRelief", Type: reflect.TypeOf(config.StressReliefConfig{}), Whole: func(c config.Config) any { return c.GetStressReliefConfig() }},
}

var (
	cxOnce     sync.Once
	cxAll      []*cxSetting // every observable setting of the main config
	cxByPath   map[string]*cxSetting
	cxTableErr error
)

func cxYamlName(f reflect.StructField) string {
	tag := f.Tag.Get("yaml")
	name := strings.Split(tag, ",")[0]
	return strings.TrimSpace(name)
}

func cxSplitNames(s string) []string {
	var out []string
	for _, p := range strings.Split(s, ",") {
		p = strings.TrimSpace(p)
		if p != "" {
			out = append(out, p)
		}
	}
	return out
}

func cxContains(xs []string, x string) bool {
	for _, y := range xs {
		if y == x {
			return true
		}
	}
	return false
}

// cxSettings builds (once) the table of observable settings from the exported
// group struct types, the CmdEnv struct tags and the documentation metadata.
func cxSettings() ([]*cxSetting, map[string]*cxSetting) {
	cxOnce.Do(func() {
		meta, err := config.LoadConfigMetadata()
		if err != nil {
			cxTableErr = err
			return
		}
		cmdT := reflect.TypeOf(config.CmdEnv{})
		cxByPath = map[string]*cxSetting{}
		for _, g := range cxGroupDefs {
			for i := 0; i < g.Type.NumField(); i++ {
				sf := g.Type.Field(i)
				yn := cxYamlName(sf)
				if yn == "" || yn == "-" || !sf.IsExported() {
					continue
				}
				s := &cxSetting{Path: g.Name + "." + yn, Group: g.Name, Field: yn, GoField: sf.Name, GoType: sf.Type, Class: "other"}
				// getter
				if g.Whole != nil {
					whole, name := g.Whole, sf.Name
					s.get = func(c config.Config) any {
						return reflect.ValueOf(whole(c)).FieldByName(name).Interface()
					}
				} else if fn, ok := g.Fields[sf.Name]; ok {
					s.get = fn
				} else {
					continue // not observable through a getter
				}
				// documentation
				if mf := meta.GetField(s.Path); mf != nil {
					s.HasMeta = true
					s.MetaType = mf.Type
					s.Default = mf.Default
					s.Choices = mf.Choices
					s.Class = cxClassOf(mf)
				}
				// Precedence levels. The ORDER of a fallback chain is taken from the documentation only
				// (metadata envvar:/commandLine: lists, first = the setting's own name, later = shared
				// fallbacks; README: "REFINERY_HONEYCOMB_LOGGER_API_KEY takes precedence over
				// REFINERY_HONEYCOMB_API_KEY"), never from the order of the struct's cmdenv tag. The CmdEnv
				// option table (one field = one flag + one env var, as --help prints it) only pairs each
				// documented env var with its flag.
				byEnv := map[string]reflect.StructField{}
				for k := 0; k < cmdT.NumField(); k++ {
					if env := cmdT.Field(k).Tag.Get("env"); env != "" {
						byEnv[env] = cmdT.Field(k)
					}
				}
				structFields := cxSplitNames(sf.Tag.Get("cmdenv"))
				covered := map[string]bool{}
				var docEnvs, docFlags []string
				if s.HasMeta {
					mf := meta.GetField(s.Path)
					docEnvs, docFlags = cxSplitNames(mf.Envvar), cxSplitNames(mf.CommandLine)
				}
				for _, env := range docEnvs {
					lv := cxLevel{DocOnly: map[string]bool{}, Envs: []string{env}}
					if f, ok := byEnv[env]; ok {
						lv.CmdField = f.Name
						covered[f.Name] = true
						if long := f.Tag.Get("long"); long != "" {
							lv.Flags = append(lv.Flags, long)
						}
					} else {
						lv.DocOnly[env] = true // documented name no option carries
					}
					s.Levels = append(s.Levels, lv)
				}
				for i, fl := range docFlags {
					for len(s.Levels) <= i {
						s.Levels = append(s.Levels, cxLevel{DocOnly: map[string]bool{}})
					}
					if !cxContains(s.Levels[i].Flags, fl) {
						s.Levels[i].Flags = append(s.Levels[i].Flags, fl)
						s.Levels[i].DocOnly[fl] = true
					}
				}
				// options the struct names but the documentation does not
				var uncovered []string
				for _, cf := range structFields {
					if !covered[cf] {
						uncovered = append(uncovered, cf)
					}
				}
				var docOnlyLevels []int
				for i := range s.Levels {
					if s.Levels[i].CmdField == "" {
						docOnlyLevels = append(docOnlyLevels, i)
					}
				}
				for _, cf := range uncovered {
					f, ok := cmdT.FieldByName(cf)
					if !ok {
						continue
					}
					var lv *cxLevel
					switch {
					case len(uncovered) == 1 && len(docOnlyLevels) == 1:
						// one documented name without an option and one option without documentation: the same
						// level under two names (a documentation/code naming mismatch shows up as a finding)
						lv = &s.Levels[docOnlyLevels[0]]
					default:
						s.Levels = append(s.Levels, cxLevel{DocOnly: map[string]bool{}, Undoc: len(s.Levels) > 0 || len(uncovered) > 1})
						lv = &s.Levels[len(s.Levels)-1]
					}
					lv.CmdField = cf
					if long := f.Tag.Get("long"); long != "" && !cxContains(lv.Flags, long) {
						lv.Flags = append([]string{long}, lv.Flags...)
						delete(lv.DocOnly, long)
					} else if long != "" {
						delete(lv.DocOnly, long)
					}
					if env := f.Tag.Get("env"); env != "" && !cxContains(lv.Envs, env) {
						lv.Envs = append([]string{env}, lv.Envs...)
					}
				}
				switch sf.Type.String() {
				case "string", "[]string", "map[string]string":
					s.StringLike = true
				}
				// a setting the docs type as a string but Go stores otherwise (config.Level)
				if s.HasMeta && (s.MetaType == "string" || s.MetaType == "hostport" || s.MetaType == "url") {
					s.StringLike = true
				}
				cxAll = append(cxAll, s)
				cxByPath[s.Path] = s
			}
		}
	})
	if cxTableErr != nil {
		panic("cx: cannot load config metadata: " + cxTableErr.Error())
	}
	return cxAll, cxByPath
}

func cxClassOf(mf *config.Field) string {
	elem := ""
	format := ""
	for _, v := range mf.Validations {
		switch v.Type {
		case "elementType":
			elem, _ = v.Arg.(string)
		case "format":
			format, _ = v.Arg.(string)
		}
	}
	scalar := func(t, format string, choices []string) string {
		switch t {
		case "hostport":
			return "hostport"
		case "url":
			return "url"
		case "memorysize":
			return "memsize"
		case "string":
			switch format {
			case "apikey", "apikeyOrBlank":
				return "apikey"
			case "alphanumeric":
				return "alnum"
			case "version":
				return "version"
			}
			if len(choices) > 0 {
				return "choice"
			}
			return "free"
		}
		return "other"
	}
	switch mf.Type {
	case "stringarray":
		if elem == "" {
			elem = "string"
		}
		return "list:" + scalar(elem, "", nil)
	case "map":
		return "map"
	}
	return scalar(mf.Type, format, mf.Choices)
}

// ---------------------------------------------------------------- observation

// cxNorm turns a getter value into a plain JSON-able value; nil and empty
// lists/maps are the same observation.
func cxNorm(v any) any {
	switch x := v.(type) {
	case nil:
		return nil
	case *config.DefaultTrue:
		return x.Get()
	case config.DefaultTrue:
		return bool(x)
	case config.Duration:
		return time.Duration(x).String()
	case time.Duration:
		return x.String()
	case config.MemorySize:
		return uint64(x)
	case config.Level:
		return x.String()
	case []string:
		out := make([]string, len(x))
		copy(out, x)
		return out
	case map[string]string:
		out := map[string]string{}
		for k, val := range x {
			out[k] = val
		}
		return out
	}
	return v
}

func cxJSON(v any) string {
	b, err := json.Marshal(v)
	if err != nil {
		return "!json:" + err.Error()
	}
	return string(b)
}

// cxSnapshot reads every observable setting through its getter.
func cxSnapshot(c config.Config) map[string]string {
	all, _ := cxSettings()
	out := make(map[string]string, len(all)+8)
	for _, s := range all {
		out[s.Path] = cxJSON(cxNorm(s.get(c)))
	}
	out["~GRPCListenAddr"] = cxJSON(c.GetGRPCListenAddr())
	out["~GRPCEnabled"] = cxJSON(c.GetGRPCEnabled())
	out["~HealthCheckTimeout"] = cxJSON(c.GetHealthCheckTimeout().String())
	out["~PeerTimeout"] = cxJSON(c.GetPeerTimeout().String())
	out["~DatasetPrefix"] = cxJSON(c.GetDatasetPrefix())
	return out
}

// cxSnapshotRules adds the rules side (sampler definitions) and the hashes.
func cxSnapshotRules(c config.Config, out map[string]string) {
	rules := c.GetAllSamplerRules()
	b, err := yaml.Marshal(rules)
	if err != nil {
		out["~rules"] = "!yaml:" + err.Error()
	} else {
		out["~rules"] = string(b)
	}
	for _, dest := range []string{"envA", "envB", "nosuchenv"} {
		_, name := c.GetSamplerConfigForDestName(dest)
		out["~sampler:"+dest] = name
		out["~keyfields:"+dest] = cxJSON(c.GetSamplingKeyFieldsForDestName(dest))
	}
	ch, rh := c.GetHashes()
	out["~hash:config"] = ch
	out["~hash:rules"] = rh
}

func cxDiffKeys(a, b map[string]string) []string {
	var keys []string
	for k, v := range a {
		if b[k] != v {
			keys = append(keys, k)
		}
	}
	for k := range b {
		if _, ok := a[k]; !ok {
			keys = append(keys, k)
		}
	}
	sort.Strings(keys)
	return keys
}

// ---------------------------------------------------------------- files

// cxYAML renders a two-level document (group -> field -> value).
func cxYAML(doc map[string]map[string]any) []byte {
	if len(doc) == 0 {
		return []byte("{}\n")
	}
	b, err := yaml.Marshal(doc)
	if err != nil {
		panic("cx: yaml marshal: " + err.Error())
	}
	return b
}

const cxRulesBase = "RulesVersion: 2\nSamplers:\n  __default__:\n    DeterministicSampler:\n      SampleRate: 1\n"

// cxLoad runs the real startup path: NewCmdEnvOptions(args) then NewConfig.
// accepted = a usable Config came back (warnings allowed).
func cxLoad(args []string, version ...string) (c config.Config, accepted bool, errText string) {
	opts, err := config.NewCmdEnvOptions(args)
	if err != nil {
		return nil, false, "cmdline: " + err.Error()
	}
	c, err = config.NewConfig(opts, version...)
	if err != nil {
		errText = err.Error()
	}
	if c == nil || reflect.ValueOf(c).IsNil() {
		return nil, false, errText
	}
	return c, true, errText
}
