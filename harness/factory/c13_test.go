package factory

import (
	"fmt"
	"sort"
	"testing"

	"github.com/honeycombio/refinery/logger"
	"github.com/honeycombio/refinery/sample"
	"github.com/honeycombio/refinery/verifharness/vkit"
	"pgregory.net/rapid"
)

// C13: throughput goals scale with the current cluster size.

type c13Op struct {
	Op     string `json:"op"` // peers | get | reload
	N      int    `json:"n,omitempty"`
	Worker int    `json:"worker,omitempty"`
	Dest   string `json:"dest,omitempty"`
	To     int    `json:"to,omitempty"`
	// overlap: membership N, call A (Kind "notify": the notification of that change;
	// "create": worker Worker's lazy creation for Dest) reads it and is held; membership
	// N2 and its notification; A continues
	N2   int    `json:"n2,omitempty"`
	Kind string `json:"kind,omitempty"`
}

type c13Case struct {
	Workers   int       `json:"workers"`
	InitPeers int       `json:"init_peers"`
	Versions  []fxRules `json:"versions"`
	Ops       []c13Op   `json:"ops"`
}

var c13Goals = []int{1, 2, 3, 5, 7, 10, 12, 100, 1000}
var c13Peers = []int{1, 2, 3, 4, 5, 7, 8, 11, 13, 200}
var c13ThroughputTypes = []string{"totalthroughput", "emathroughput", "windowedthroughput"}
var c13LookupDraw = []string{"prod", "prod", "prod", "staging", "staging", "west", "east"}

// c13GenDef draws a definition for position pos of a destination. The field
// list is unique per position, so that no two different definitions of one
// destination have the same (type, goal, field set): pairs like that collide
// under the known C12 finding (registry key ignores tuning parameters such as
// UseClusterSize) and are excluded here by construction while it stands.
func c13GenDef(t *rapid.T, label string, pos int) fxDef {
	types := c13ThroughputTypes
	if rapid.IntRange(0, 9).Draw(t, label+"/nonthroughput") == 0 {
		types = []string{"dynamic", "emadynamic"}
	}
	d := fxDef{
		Type:   rapid.SampledFrom(types).Draw(t, label+"/type"),
		Rate:   rapid.SampledFrom(c13Goals).Draw(t, label+"/goal"),
		Fields: []string{fmt.Sprintf("f%d", pos)},
	}
	if rapid.Bool().Draw(t, label+"/shared-field") {
		d.Fields = append(d.Fields, "a")
	}
	if d.isThroughput() {
		d.UseClusterSize = rapid.IntRange(0, 9).Draw(t, label+"/cluster") < 6
	}
	if rapid.IntRange(0, 3).Draw(t, label+"/tweak") == 0 {
		var ps []string
		for _, p := range fxTuning[d.Type] {
			if p != "UseClusterSize" {
				ps = append(ps, p)
			}
		}
		d.setParam(rapid.SampledFrom(ps).Draw(t, label+"/param"), rapid.IntRange(1, 2).Draw(t, label+"/pval"))
	}
	return d
}

func c13GenDest(t *rapid.T, name string) fxDest {
	if rapid.IntRange(0, 9).Draw(t, name+"/kind") < 4 {
		def := c13GenDef(t, name+"/top", 0)
		return fxDest{Name: name, Top: &def}
	}
	d := fxDest{Name: name}
	n := rapid.IntRange(1, 4).Draw(t, name+"/nrules")
	for i := 0; i < n; i++ {
		rl := fmt.Sprintf("%s/r%d", name, i)
		ru := fxRule{Name: fmt.Sprintf("r%d", i)}
		if i < n-1 {
			ru.Conds = []fxCond{{Field: "k", Operator: "=", Value: i}}
		}
		switch v := rapid.IntRange(0, 9).Draw(t, rl+"/variant"); {
		case v == 0:
			ru.SampleRate = rapid.IntRange(1, 10).Draw(t, rl+"/samplerate")
		case (v == 2 || v == 3) && len(d.Rules) > 0 && d.Rules[len(d.Rules)-1].Def != nil && d.Rules[len(d.Rules)-1].Def.isThroughput():
			// sibling of the previous rule: the same definition except for UseClusterSize
			// (two different definitions: each must keep its own goal). Such pairs used to be
			// excluded while C12's "tuning parameters not in the sharing key" finding stood.
			cp := *d.Rules[len(d.Rules)-1].Def
			cp.Fields = append([]string(nil), cp.Fields...)
			cp.UseClusterSize = !cp.UseClusterSize
			ru.Def = &cp
		case v == 1 && len(d.Rules) > 0 && d.Rules[len(d.Rules)-1].Def != nil:
			// identical copy of the previous rule's definition (may share an instance; same goal either way)
			cp := *d.Rules[len(d.Rules)-1].Def
			cp.Fields = append([]string(nil), cp.Fields...)
			ru.Def = &cp
		default:
			def := c13GenDef(t, rl, i)
			ru.Def = &def
		}
		d.Rules = append(d.Rules, ru)
	}
	return d
}

func c13GenRules(t *rapid.T) fxRules {
	var r fxRules
	if rapid.Bool().Draw(t, "default/det") {
		r.Dests = append(r.Dests, fxDest{Name: "__default__", Top: &fxDef{Type: "deterministic", Rate: 1}})
	} else {
		r.Dests = append(r.Dests, c13GenDest(t, "__default__"))
	}
	if rapid.IntRange(0, 9).Draw(t, "has/prod") < 9 {
		r.Dests = append(r.Dests, c13GenDest(t, "prod"))
	}
	if rapid.Bool().Draw(t, "has/staging") {
		r.Dests = append(r.Dests, c13GenDest(t, "staging"))
	}
	return r
}

// c13Mutate: an operator's edit: one throughput definition gets a new goal or
// its UseClusterSize toggled (position and fields stay, so the construction
// constraint of c13GenDef is kept).
func c13Mutate(t *rapid.T, prev fxRules) fxRules {
	r := c12CopyRules(prev)
	var defs []*fxDef
	for i := range r.Dests {
		if r.Dests[i].Top != nil && r.Dests[i].Top.isThroughput() {
			defs = append(defs, r.Dests[i].Top)
		}
		for j := range r.Dests[i].Rules {
			if d := r.Dests[i].Rules[j].Def; d != nil && d.isThroughput() {
				defs = append(defs, d)
			}
		}
	}
	if len(defs) == 0 {
		return c13GenRules(t)
	}
	d := defs[rapid.IntRange(0, len(defs)-1).Draw(t, "mutate/which")]
	if rapid.Bool().Draw(t, "mutate/goal") {
		d.Rate = rapid.SampledFrom(c13Goals).Draw(t, "mutate/newgoal")
	} else {
		d.UseClusterSize = !d.UseClusterSize
	}
	return r
}

func genC13(t *rapid.T) c13Case {
	c := c13Case{
		Workers:   rapid.IntRange(1, 3).Draw(t, "workers"),
		InitPeers: rapid.SampledFrom(c13Peers).Draw(t, "initpeers"),
	}
	c.Versions = []fxRules{c13GenRules(t)}
	nv := rapid.SampledFrom([]int{1, 2, 2, 3, 3}).Draw(t, "nversions")
	for len(c.Versions) < nv {
		if rapid.IntRange(0, 9).Draw(t, "version/independent") < 3 {
			c.Versions = append(c.Versions, c13GenRules(t))
		} else {
			c.Versions = append(c.Versions, c13Mutate(t, c.Versions[len(c.Versions)-1]))
		}
	}
	opGen := rapid.Custom(func(t *rapid.T) c13Op {
		switch k := rapid.IntRange(0, 12).Draw(t, "opkind"); {
		case k >= 10:
			return c13Op{Op: "overlap", Kind: rapid.SampledFrom([]string{"notify", "notify", "create"}).Draw(t, "okind"),
				N: rapid.SampledFrom(c13Peers).Draw(t, "n1"), N2: rapid.SampledFrom(c13Peers).Draw(t, "n2"),
				Worker: rapid.IntRange(0, 2).Draw(t, "worker"), Dest: rapid.SampledFrom(c13LookupDraw).Draw(t, "dest")}
		case k <= 4:
			return c13Op{Op: "get", Worker: rapid.IntRange(0, 2).Draw(t, "worker"), Dest: rapid.SampledFrom(c13LookupDraw).Draw(t, "dest")}
		case k <= 7:
			return c13Op{Op: "peers", N: rapid.SampledFrom(c13Peers).Draw(t, "n")}
		case k == 8:
			return c13Op{Op: "reload", To: rapid.IntRange(0, 2).Draw(t, "to")}
		default:
			// a reload immediately followed by a trace for some destination
			return c13Op{Op: "reload-get", To: rapid.IntRange(0, 2).Draw(t, "to"), Worker: rapid.IntRange(0, 2).Draw(t, "worker"), Dest: rapid.SampledFrom(c13LookupDraw).Draw(t, "dest")}
		}
	})
	c.Ops = rapid.SliceOfN(opGen, 1, 24).Draw(t, "ops")
	return c
}

// c13Want is the oracle, written from the statement: max(1, floor(goal/peers))
// with UseClusterSize, the configured goal without.
func c13Want(d fxDef, peers int) int {
	if !d.UseClusterSize {
		return d.Rate
	}
	w := d.Rate / peers
	if w < 1 {
		w = 1
	}
	return w
}

func execC13(c c13Case) vkit.Result {
	var res vkit.Result
	seenSig := map[string]bool{}
	violate := func(sig, format string, args ...any) {
		if !seenSig[sig] {
			seenSig[sig] = true
			res.Violate(sig, format, args...)
		}
	}
	classes := map[string]bool{}
	class := func(s string) {
		if !classes[s] {
			classes[s] = true
			res.Class(s)
		}
	}
	texts := make([]string, len(c.Versions))
	for i, v := range c.Versions {
		texts[i] = v.yamlText()
		if err := fxValidateRules(texts[i]); err != nil {
			res.Violate("harness/invalid-rules", "version %d: %v\n%s", i, err, texts[i])
			return res
		}
	}
	W := c.Workers
	if W < 1 {
		W = 1
	}
	peers := c.InitPeers
	if peers < 1 {
		peers = 1
	}
	sut, err := fxNewSUT(fxMainYAML, texts[0], W, peers)
	if err != nil {
		res.Violate("harness/load", "cannot load generated config: %v\n%s", err, texts[0])
		return res
	}
	defer sut.stop()
	// the factory under test gets the gate-able Peers double
	sut.factory.Stop()
	gp := newC13GatePeers(peers)
	sut.factory = &sample.SamplerFactory{Config: sut.cfg, Logger: &logger.NullLogger{}, Metrics: sut.met, Peers: gp}
	if err := sut.factory.Start(); err != nil {
		res.Violate("harness/factory-start", "%v", err)
		return res
	}

	cur := 0
	prevPeers := peers    // peer count before the latest change (to classify stale values)
	peerChanges := 0      // effective peer-count changes so far
	changesAtReload := -1 // peerChanges when the latest changed reload happened after >=1 change

	judge := func(step int, after string) (liveCluster int) {
		for w := 0; w < W; w++ {
			dests := make([]string, 0, len(sut.caches[w]))
			for d := range sut.caches[w] {
				dests = append(dests, d)
			}
			sort.Strings(dests)
			for _, dest := range dests {
				sm := sut.caches[w][dest]
				if sm == nil {
					violate("C13/create/nil-sampler", "step %d: worker %d dest %q: factory returned nil", step, w, dest)
					continue
				}
				exp := c12Expected(c.Versions[cur].resolve(dest))
				refs := sample.VerifDynsamplers(sm)
				if len(refs) != len(exp) {
					violate("C13/structure/instance-count", "step %d: dest %q: %d instances, rules file defines %d", step, dest, len(refs), len(exp))
					continue
				}
				for i, r := range refs {
					def := exp[i].def
					if r.Kind != def.Type || r.Path != exp[i].path {
						violate("C13/structure/wrong-sampler", "step %d: dest %q: got %s at %q, rules file has %s at %q", step, dest, r.Kind, r.Path, def.Type, exp[i].path)
						continue
					}
					if !def.isThroughput() {
						if r.HasGoal {
							violate("C13/structure/goal-on-non-throughput", "step %d: dest %q %s", step, dest, r.Path)
						}
						continue
					}
					if !r.HasGoal {
						violate("C13/structure/no-goal", "step %d: dest %q %s: hook reports no goal for %s", step, dest, r.Path, def.Type)
						continue
					}
					mode := "fixed-goal"
					if def.UseClusterSize {
						mode = "use-cluster-size"
						liveCluster++
					}
					want := c13Want(def, peers)
					if r.Goal == float64(want) {
						continue
					}
					how := "other"
					switch {
					case r.Goal == 0:
						how = "zero"
					case def.UseClusterSize && r.Goal == float64(def.Rate) && want != def.Rate:
						how = "undivided"
					case def.UseClusterSize && r.Goal == float64(c13Want(def, prevPeers)):
						how = "stale-previous-cluster-size"
					case !def.UseClusterSize && r.Goal == float64(max(def.Rate/peers, 1)):
						how = "divided"
					}
					violate(fmt.Sprintf("C13/%s/%s/%s/after-%s", def.Type, mode, how, after),
						"step %d (%s): dest %q %s: %s goal=%d UseClusterSize=%v, peers=%d (before: %d): GoalThroughputPerSec=%v, want %d",
						step, after, dest, r.Path, def.Type, def.Rate, def.UseClusterSize, peers, prevPeers, r.Goal, want)
				}
			}
		}
		return liveCluster
	}

	doReload := func(step, toIdx int) bool {
		to := toIdx % len(c.Versions)
		changed := texts[to] != texts[cur]
		before := sut.reloads
		if err := sut.reload(texts[to]); err != nil {
			violate("harness/reload", "step %d: reload failed: %v", step, err)
			return false
		}
		got := sut.reloads - before
		if changed && got != 1 || !changed && got != 0 {
			violate("harness/reload-callbacks", "step %d: rules changed=%v but %d reload callbacks", step, changed, got)
			return false
		}
		cur = to
		if changed {
			class("reload/changed")
			if peerChanges > 0 {
				changesAtReload = peerChanges
			}
		}
		judge(step, "reload")
		return true
	}

	for step, op := range c.Ops {
		switch op.Op {
		case "peers":
			n := op.N
			if n < 1 {
				n = 1
			}
			if n != peers {
				prevPeers = peers
				peerChanges++
			}
			peers = n
			gp.update(n)
			live := judge(step, "peers")
			if live > 0 && changesAtReload >= 0 && peerChanges > changesAtReload {
				res.NonTrivial = true
				class("nt/reload-between-peer-changes")
			}
			if live > 0 && n != prevPeers {
				class("peer-change-with-live-cluster-sized-sampler")
			}
		case "overlap":
			n1, n2 := max(op.N, 1), max(op.N2, 1)
			var callA func()
			after := "overlap-notify"
			if op.Kind == "create" {
				after = "overlap-create"
				w := op.Worker % W
				callA = func() { sut.get(w, op.Dest) }
			}
			if n1 != peers {
				peerChanges++
			}
			if n2 != n1 {
				peerChanges++
			}
			held, bFinished := gp.overlap(n1, n2, callA)
			prevPeers, peers = n1, n2
			live := judge(step, after)
			switch {
			case !held:
				class("overlap/first-call-never-read-the-membership")
			case bFinished:
				class("overlap/second-notification-finished-while-first-call-held")
			default:
				class("overlap/second-notification-blocked-until-first-call-released")
			}
			if held && live > 0 && n1 != n2 {
				res.NonTrivial = true
				class("nt/overlapping-notifications-with-live-cluster-sized-sampler")
			}
		case "get", "reload-get":
			if op.Op == "reload-get" {
				if !doReload(step, op.To) {
					return res
				}
			}
			w := op.Worker % W
			_, created := sut.get(w, op.Dest)
			judge(step, "create")
			if created {
				hasCluster, goalBelowPeers := false, false
				for _, e := range c12Expected(c.Versions[cur].resolve(op.Dest)) {
					if e.def.isThroughput() && e.def.UseClusterSize {
						hasCluster = true
						if e.def.Rate < peers {
							goalBelowPeers = true
						}
					}
				}
				if hasCluster && peerChanges > 0 {
					res.NonTrivial = true
					class("nt/create-after-peer-change")
				}
				if goalBelowPeers {
					class("goal-smaller-than-cluster(floor-1)")
				}
			}
		case "reload":
			if !doReload(step, op.To) {
				return res
			}
		}
	}
	return res
}

func TestC13(t *testing.T) {
	vkit.Run(t, vkit.Spec[c13Case]{
		ID:   "C13",
		Rule: "rapid-generated rules files (1-3 versions, later ones an operator-style edit of goal/UseClusterSize or independent; destinations with top-level and rule-downstream TotalThroughput/EMAThroughput/WindowedThroughput samplers with and without UseClusterSize, goals 1..1000, plus a few non-throughput samplers) loaded through config.NewConfig; histories of SetPeers(n in 1..200) through the callbacks of a peer.Peers double, lazy creation by 1-3 workers, real reloads, and overlap steps (a notification or a creation is held by the double right after it has read the membership, the membership changes again and the next notification runs, then the held call continues). After every step GoalThroughputPerSec of every throughput dynsampler behind a cached sampler (verif hook) is compared with max(1, floor(goal/peers)) resp. goal. Non-trivial: a cluster-sized sampler is created after a peer-count change, or a changed reload lies between two peer-count changes while a cluster-sized sampler is live, or an overlap step with two different peer counts ran with a live cluster-sized sampler. Distinct = distinct case JSON.",
		Assumptions: []string{
			"'current number of peers' = length of Peers.GetPeers() (includes this node); peer counts >= 1 only",
			"peer-count changes reach the factory through the RegisterUpdatedPeersCallback callbacks, as with the real peer implementations; in overlap steps two callbacks run on their own goroutines (as with redis peers) and the verdict is taken from the goals after both have finished",
			"live = referenced from a worker's sampler cache; reload = ClearDynsamplers then all worker caches cleared, atomically",
			"sibling rules that differ only in UseClusterSize (or only in the goal) are generated on purpose: they are different definitions and each must keep its own goal; identical copies may share an instance and then have the same goal anyway",
			"GoalThroughputPerSec is read through sample/verif_hooks_c12.go while no callback is running",
		},
		Gen:   genC13,
		Exec:  execC13,
		Extra: c13OverlapExtra,
	})
}
