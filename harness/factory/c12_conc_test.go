package factory

// C12, concurrent sub-mode: several workers lazily create the samplers of the
// same destinations at the same moment. Verdicts come only from the identity
// of the dynsampler instances observed afterwards, never from timing; how many
// repetitions actually overlapped is measured and reported.

import (
	"fmt"
	"runtime"
	"strings"
	"sync"
	"sync/atomic"

	"github.com/honeycombio/refinery/internal/peer"
	"github.com/honeycombio/refinery/logger"
	"github.com/honeycombio/refinery/metrics"
	"github.com/honeycombio/refinery/sample"
	"github.com/honeycombio/refinery/verifharness/vkit"
)

func c12ConcReps() int {
	if vkit.Thorough() {
		return 60
	}
	return 30
}

// run-wide counters for the evidence (Spec.Extra)
var (
	c12ConcRepsTotal      atomic.Int64 // repetitions executed
	c12ConcRepsContended  atomic.Int64 // gated reps: >=1 other worker had started creating while the first creator was held
	c12ConcRepsOvertaken  atomic.Int64 // gated reps: another worker finished a creation while the first creator was held mid-creation
	c12ConcRepsInterleave atomic.Int64 // ungated reps: two workers' creation calls overlapped in time (by sequence stamps)
)

func c12ConcExtra() map[string]any {
	return map[string]any{
		"conc_reps_total":                          c12ConcRepsTotal.Load(),
		"conc_gated_reps_with_contention":          c12ConcRepsContended.Load(),
		"conc_gated_reps_creator_overtaken":        c12ConcRepsOvertaken.Load(),
		"conc_ungated_reps_with_overlapping_calls": c12ConcRepsInterleave.Load(),
	}
}

var c12DynPrefixes = []string{"dynamic_", "emadynamic_", "totalthroughput_", "emathroughput_", "windowedthroughput_"}

// c12GateMetrics is the Metrics double of the concurrent sub-mode: a
// MockMetrics whose Register holds the FIRST caller that registers the
// per-dynsampler metrics (refinery does that while it sets up a new shared
// dynsampler) until every other worker has finished or a yield budget is used
// up (they are blocked - on the unmodified code, on the factory mutex).
type c12GateMetrics struct {
	*metrics.MockMetrics
	armed    atomic.Bool
	started  atomic.Int32 // workers that have begun calling the factory
	finished atomic.Int32 // workers that are done
	others   int32        // number of workers besides the held one
	// observed at release
	held              bool
	startedAtRelease  int32
	finishedAtRelease int32
}

const c12YieldBudget = 400

func (g *c12GateMetrics) Register(m metrics.Metadata) {
	g.MockMetrics.Register(m)
	if !strings.HasSuffix(m.Name, "_num_kept") {
		return
	}
	isDyn := false
	for _, p := range c12DynPrefixes {
		if strings.HasPrefix(m.Name, p) {
			isDyn = true
		}
	}
	if !isDyn || !g.armed.CompareAndSwap(true, false) {
		return
	}
	for i := 0; i < c12YieldBudget && g.finished.Load() < g.others; i++ {
		runtime.Gosched()
	}
	g.held = true
	g.startedAtRelease = g.started.Load()
	g.finishedAtRelease = g.finished.Load()
}

func c12RunConcurrent(c c12Case, sut *fxSUT, res *vkit.Result,
	collect func(int) ([]c12Obs, bool), judge func(int, []c12Obs), checkGauge func(int, []c12Obs),
	violate func(string, string, ...any), class func(string)) {

	cc := *c.Conc
	G := min(max(cc.Goroutines, 2), 16)
	reps := min(max(cc.Reps, 1), 200)
	dests := cc.Dests
	if len(dests) == 0 {
		dests = []string{"prod"}
	}
	// the factory created by fxNewSUT is not used here; each repetition gets a fresh one
	sut.factory.Stop()
	hasState := false
	for _, d := range dests {
		if len(c12Expected(c.Versions[0].resolve(d))) > 0 {
			hasState = true
		}
	}
	if hasState {
		res.NonTrivial = true
	}
	contended, overtaken, interleaved := 0, 0, 0
	for rep := 0; rep < reps; rep++ {
		inner := &metrics.MockMetrics{}
		inner.Start()
		gate := &c12GateMetrics{MockMetrics: inner, others: int32(G - 1)}
		gate.armed.Store(cc.Gate)
		sut.met = inner
		f := &sample.SamplerFactory{Config: sut.cfg, Logger: &logger.NullLogger{}, Metrics: gate, Peers: peer.NewMockPeers(fxPeerList(1), "")}
		if err := f.Start(); err != nil {
			violate("harness/factory-start", "%v", err)
			return
		}
		sut.factory = f
		for w := range sut.caches {
			clear(sut.caches[w])
		}
		var seq atomic.Int64
		type span struct{ from, to int64 }
		spans := make([][]span, G)
		got := make([]map[string]sample.Sampler, G)
		start := make(chan struct{})
		var wg sync.WaitGroup
		for w := 0; w < G; w++ {
			wg.Add(1)
			go func(w int) {
				defer wg.Done()
				got[w] = map[string]sample.Sampler{}
				<-start
				gate.started.Add(1)
				for i := range dests {
					d := dests[i]
					if cc.Rotate {
						d = dests[(i+w)%len(dests)]
					}
					from := seq.Add(1)
					sm := f.GetSamplerImplementationForKey(d)
					spans[w] = append(spans[w], span{from, seq.Add(1)})
					got[w][d] = sm
				}
				gate.finished.Add(1)
			}(w)
		}
		close(start)
		wg.Wait()
		for w := 0; w < G; w++ {
			for d, sm := range got[w] {
				sut.caches[w][d] = sm
			}
		}
		// a worker that arrives later, sequentially (also makes the gauge exact)
		for _, d := range dests {
			sut.get(G, d)
		}
		c12ConcRepsTotal.Add(1)
		if cc.Gate && gate.held {
			if gate.startedAtRelease >= 2 {
				contended++
				c12ConcRepsContended.Add(1)
			}
			if gate.finishedAtRelease >= 1 {
				overtaken++
				c12ConcRepsOvertaken.Add(1)
			}
		}
		if !cc.Gate {
			overlap := false
			for a := 0; a < G && !overlap; a++ {
				for b := a + 1; b < G && !overlap; b++ {
					for _, x := range spans[a] {
						for _, y := range spans[b] {
							if x.from < y.to && y.from < x.to {
								overlap = true
							}
						}
					}
				}
			}
			if overlap {
				interleaved++
				c12ConcRepsInterleave.Add(1)
			}
		}
		live, ok := collect(rep)
		if ok {
			judge(rep, live)
			checkGauge(rep, live)
		}
		f.Stop()
		if len(res.Violations) > 0 {
			break
		}
	}
	sut.factory = &sample.SamplerFactory{Config: sut.cfg, Logger: &logger.NullLogger{}, Metrics: sut.met}
	_ = sut.factory.Start() // so that the deferred sut.stop() has something harmless to stop
	bucket := func(n int) string {
		switch {
		case n == 0:
			return "0"
		case n*2 < reps:
			return "some"
		default:
			return "most"
		}
	}
	class(fmt.Sprintf("conc/goroutines=%d", G))
	if cc.Gate {
		class("conc/gated/reps-with-other-workers-started-while-creator-held=" + bucket(contended))
		class("conc/gated/reps-where-a-worker-overtook-the-held-creator=" + bucket(overtaken))
	} else {
		class("conc/ungated/reps-with-overlapping-creation-calls=" + bucket(interleaved))
	}
	if !hasState {
		class("conc/no-dynsampler-behind-requested-destinations")
	}
}
