package factory

import (
	"fmt"
	"sort"
	"strings"
	"sync"
	"testing"
	"testing/synctest"
	"time"

	"github.com/jonboulle/clockwork"
	"github.com/tinylib/msgp/msgp"
	"go.opentelemetry.io/otel/trace/noop"

	"github.com/honeycombio/refinery/collect"
	"github.com/honeycombio/refinery/config"
	"github.com/honeycombio/refinery/internal/peer"
	"github.com/honeycombio/refinery/logger"
	"github.com/honeycombio/refinery/metrics"
	"github.com/honeycombio/refinery/pubsub"
	"github.com/honeycombio/refinery/sample"
	"github.com/honeycombio/refinery/sharder"
	"github.com/honeycombio/refinery/types"
	"github.com/honeycombio/refinery/verifharness/vkit"
	"pgregory.net/rapid"

	libhoney "github.com/honeycombio/libhoney-go"
)

// C14: each trace is sampled by the sampler configured for its destination, and
// the fields that sampler reads are available when it decides.

// ---- case ----

type c14Dest struct {
	Name  string `json:"name"`
	Shape string `json:"shape"` // rules | dynamic | deterministic
}

type c14Span struct {
	Root   bool              `json:"root,omitempty"`
	Mode   string            `json:"mode"` // batch | otlp | map : ingestion path that builds the payload
	Fields map[string]string `json:"fields"`
}

type c14Trace struct {
	KeyClass string    `json:"key_class"`
	Key      string    `json:"key"`
	Env      string    `json:"env"` // environment name Honeycomb's /1/auth reports for this key (used for non-classic keys only)
	Dataset  string    `json:"dataset"`
	Spans    []c14Span `json:"spans"`
}

type c14KeyProbe struct {
	Class string `json:"class"`
	Key   string `json:"key"`
}

type c14Case struct {
	Prefix  string        `json:"prefix"`
	Workers int           `json:"workers"`
	Dests   []c14Dest     `json:"dests"` // Dests[0] is __default__; the tag of a destination is its index
	Traces  []c14Trace    `json:"traces"`
	Probes  []c14KeyProbe `json:"probes"`
}

// ---- key shapes (oracle side) ----

const (
	c14Hex   = "0123456789abcdef"
	c14Lower = "0123456789abcdefghijklmnopqrstuvwxyz"
	c14Alnum = "0123456789abcdefghijklmnopqrstuvwxyzABCDEFGHIJKLMNOPQRSTUVWXYZ"
)

// c14Verdict is the oracle's reading of a key, written from the exact key
// shapes Honeycomb publishes (rules.md: a classic key is a 32-character
// hexadecimal value - Honeycomb issues and its SDKs accept lower-case digits
// only, libhoney-go `^[a-f0-9]*$`; a classic ingest key is `hc[a-z]ic_` followed
// by 58 characters of [0-9a-z], 64 in all): a key of exactly one of these two
// shapes is "classic"; every other non-empty key - environment keys, ingest
// environment keys `hc[a-z]ik_...`, and every malformed or near-miss key - is not
// a classic key and therefore selects by "environment". Only the empty key is
// left open ("" = don't-care): no trace can be sent without a key, Honeycomb's
// SDK calls it classic, refinery's router special-cases it before classifying.
func c14Verdict(key string) string {
	allIn := func(s, set string) bool {
		for i := 0; i < len(s); i++ {
			if strings.IndexByte(set, s[i]) < 0 {
				return false
			}
		}
		return true
	}
	isLetter := func(b byte) bool { return b >= 'a' && b <= 'z' }
	n := len(key)
	switch {
	case n == 0:
		return ""
	case n == 32 && allIn(key, c14Hex):
		return "classic"
	case n == 64 && key[:2] == "hc" && isLetter(key[2]) && key[3:6] == "ic_" && allIn(key[6:], c14Lower):
		return "classic"
	default:
		return "environment"
	}
}

// c14IsValidKey: one of the four key shapes Honeycomb issues (only traces with
// such keys exist beyond the router).
func c14IsValidKey(key string) bool {
	v := c14Verdict(key)
	if v == "classic" {
		return true
	}
	if v != "environment" {
		return false
	}
	n := len(key)
	if n >= 20 && n <= 23 {
		for i := 0; i < n; i++ {
			if strings.IndexByte(c14Alnum, key[i]) < 0 {
				return false
			}
		}
		return true
	}
	if n != 64 || key[:2] != "hc" || key[2] < 'a' || key[2] > 'z' || key[3:6] != "ik_" {
		return false
	}
	for i := 6; i < n; i++ {
		if strings.IndexByte(c14Lower, key[i]) < 0 {
			return false
		}
	}
	return true
}

func c14GenKey(t *rapid.T, label string) (class, key string) {
	str := func(set string, n int, l string) string {
		return rapid.StringOfN(rapid.RuneFrom([]rune(set)), n, n, -1).Draw(t, label+"/"+l)
	}
	region := func() string { return str("abcdefghijklmnopqrstuvwxyz", 1, "region") }
	class = rapid.SampledFrom([]string{
		"classic32", "classic32", "classic32", "classic-ingest", "classic-ingest",
		"env2x", "env2x", "env2x", "env-ingest", "env-ingest",
		"hex-wrong-length", "hex32-one-bad-char", "hex32-one-bad-char", "ingest-wrong-length", "hex32-upper",
		"ingest-one-bad-char", "ingest-one-bad-char", "ingest-one-bad-char", "ingest-bad-prefix", "ingest-bad-prefix", "empty",
	}).Draw(t, label+"/class")
	switch class {
	case "classic32":
		key = str(c14Hex, 32, "hex")
	case "classic-ingest":
		key = "hc" + region() + "ic_" + str(c14Lower, 58, "tail")
	case "env2x":
		key = str(c14Alnum, rapid.IntRange(20, 23).Draw(t, label+"/len"), "alnum")
	case "env-ingest":
		key = "hc" + region() + "ik_" + str(c14Lower, 58, "tail")
	case "hex-wrong-length":
		key = str(c14Hex, rapid.SampledFrom([]int{31, 33, 16, 63, 65, 24}).Draw(t, label+"/len"), "hex")
	case "hex32-one-bad-char":
		// exactly one character that is not a lower-case hex digit, at a drawn
		// position (aimed at both ends): upper-case hex digits, the neighbours of
		// the digit/letter ranges in ASCII, letters beyond f
		k := []byte(str(c14Hex, 32, "hex"))
		pos := rapid.SampledFrom([]int{0, 0, 31, 31, 1, 30, -1, -1}).Draw(t, label+"/pos")
		if pos < 0 {
			pos = rapid.IntRange(0, 31).Draw(t, label+"/anypos")
		}
		k[pos] = rapid.SampledFrom([]byte("ABCDEFgzGZ/:`@-_ .")).Draw(t, label+"/bad")
		key = string(k)
	case "ingest-wrong-length":
		key = "hc" + region() + "ic_" + str(c14Lower, rapid.SampledFrom([]int{57, 59, 26}).Draw(t, label+"/len"), "tail")
	case "hex32-upper":
		key = strings.ToUpper(str(c14Hex, 32, "hex"))
	case "ingest-one-bad-char":
		// valid hc<region>ic_ prefix, exactly one illegal character in the 58-character
		// suffix at a drawn position (aimed at its first and last two positions)
		k := []byte("hc" + region() + "ic_" + str(c14Lower, 58, "tail"))
		pos := rapid.SampledFrom([]int{6, 6, 7, 62, 63, 63, -1, -1}).Draw(t, label+"/pos")
		if pos < 0 {
			pos = rapid.IntRange(6, 63).Draw(t, label+"/anypos")
		}
		k[pos] = rapid.SampledFrom([]byte("AZMK/:`{@-_ .")).Draw(t, label+"/bad")
		key = string(k)
	case "ingest-bad-prefix":
		// 58 valid suffix characters behind a prefix that is not hc[a-z]ic_
		pre := rapid.SampledFrom([]string{"hcAic_", "hc1ic_", "hc_ic_", "hcaic-", "hcaic.", "hcaIc_", "hcaiC_", "Hcaic_", "hCaic_", "hbaic_", "xcaic_", "hcaid_", "hcajc_", "hc`ic_", "hc{ic_"}).Draw(t, label+"/prefix")
		key = pre + str(c14Lower, 58, "tail")
	default:
		key = ""
	}
	return class, key
}

// ---- generator ----

var c14DestNames = []string{"prod", "staging", "prød", "my env", "classic.prod", "classic.staging", "prod.x", "x", "Pre1.prod", ".x", ".prod"}
var c14EnvNames = []string{"prod", "prod", "staging", "prød", "my env", "classic.prod", "unlisted-env"}
var c14Datasets = []string{"prod", "prod", "staging", "x", "prød", "unlisted-ds", ".x", ".prod", ".", "..", "x."}
var c14Prefixes = []string{"", "", "classic", "classic", "prod", "Pre1"}

func genC14(t *rapid.T) c14Case {
	c := c14Case{
		Prefix:  rapid.SampledFrom(c14Prefixes).Draw(t, "prefix"),
		Workers: rapid.IntRange(1, 3).Draw(t, "workers"),
	}
	shapes := []string{"rules", "rules", "rules", "dynamic", "deterministic"}
	c.Dests = []c14Dest{{Name: "__default__", Shape: rapid.SampledFrom(shapes).Draw(t, "default/shape")}}
	names := rapid.SliceOfNDistinct(rapid.SampledFrom(c14DestNames), 1, 3, rapid.ID[string]).Draw(t, "destnames")
	if rapid.IntRange(0, 9).Draw(t, "dotted-pair") < 3 {
		// a name and the same name with a leading dot both have a sampler, so that
		// confusing the two is visible in which sampler decides
		pair := rapid.SampledFrom([][]string{{"x", ".x"}, {"prod", ".prod"}}).Draw(t, "dotted-pair/which")
		names = append([]string(nil), pair...)
	}
	for _, n := range names {
		c.Dests = append(c.Dests, c14Dest{Name: n, Shape: rapid.SampledFrom(shapes).Draw(t, n+"/shape")})
	}
	ntags := len(c.Dests)
	spanGen := func(label string, root bool, first bool) c14Span {
		sp := c14Span{Root: root, Fields: map[string]string{},
			Mode: rapid.SampledFrom([]string{"batch", "batch", "otlp", "map"}).Draw(t, label+"/mode")}
		for tag := 0; tag < ntags; tag++ {
			l := fmt.Sprintf("%s/t%d", label, tag)
			switch rapid.IntRange(0, 9).Draw(t, l+"/c") {
			case 0, 1, 2:
				sp.Fields[fmt.Sprintf("c_%d", tag)] = "yes"
			case 3, 4:
				sp.Fields[fmt.Sprintf("c_%d", tag)] = "no"
			}
			if rapid.Bool().Draw(t, l+"/r") {
				sp.Fields[fmt.Sprintf("r_%d", tag)] = fmt.Sprintf("r%dv", tag)
			}
			// the first span of a trace always carries every k_<tag>, so that a dynamic
			// sampler's key shows which destination's field list was used
			if first || rapid.Bool().Draw(t, l+"/k") {
				sp.Fields[fmt.Sprintf("k_%d", tag)] = fmt.Sprintf("k%dv%d", tag, rapid.IntRange(0, 2).Draw(t, l+"/kv"))
			}
			if rapid.Bool().Draw(t, l+"/q") {
				sp.Fields[fmt.Sprintf("q_%d", tag)] = fmt.Sprintf("q%dv%d", tag, rapid.IntRange(0, 1).Draw(t, l+"/qv"))
			}
		}
		return sp
	}
	ntr := rapid.IntRange(1, 5).Draw(t, "ntraces")
	for i := 0; i < ntr; i++ {
		l := fmt.Sprintf("tr%d", i)
		tr := c14Trace{
			Env:     rapid.SampledFrom(c14EnvNames).Draw(t, l+"/env"),
			Dataset: rapid.SampledFrom(c14Datasets).Draw(t, l+"/dataset"),
		}
		// aim: most traces are addressed to one of the configured destinations -
		// the environment is named like it, and the dataset is its name without
		// the DatasetPrefix (if it carries one)
		if aim := rapid.IntRange(0, 2*(ntags-1)).Draw(t, l+"/aim"); aim >= 1 && aim < ntags {
			tr.Env = c.Dests[aim].Name
			tr.Dataset = c.Dests[aim].Name
			if c.Prefix != "" && strings.HasPrefix(tr.Dataset, c.Prefix+".") {
				tr.Dataset = strings.TrimPrefix(tr.Dataset, c.Prefix+".")
			}
		}
		tr.KeyClass, tr.Key = c14GenKey(t, l+"/key")
		nsp := rapid.IntRange(1, 3).Draw(t, l+"/nspans")
		hasRoot := rapid.IntRange(0, 9).Draw(t, l+"/hasroot") < 8
		for j := 0; j < nsp; j++ {
			// children first, root (if any) last - the usual arrival order
			tr.Spans = append(tr.Spans, spanGen(fmt.Sprintf("%s/s%d", l, j), hasRoot && j == nsp-1, j == 0))
		}
		c.Traces = append(c.Traces, tr)
	}
	np := rapid.IntRange(0, 12).Draw(t, "nprobes")
	for i := 0; i < np; i++ {
		cl, k := c14GenKey(t, fmt.Sprintf("probe%d", i))
		c.Probes = append(c.Probes, c14KeyProbe{Class: cl, Key: k})
	}
	return c
}

// ---- rules file for the case ----

func c14RuleNames(tag int) (hit, root, dyn string) {
	return fmt.Sprintf("hit-T%d", tag), fmt.Sprintf("root-T%d", tag), fmt.Sprintf("dyn-T%d", tag)
}

func c14DetRate(tag int) int { return 2 + tag }

// c14ReadFields: the fields the sampler of destination tag reads, as written in
// the rules file.
func c14ReadFields(d c14Dest, tag int) []string {
	switch d.Shape {
	case "rules":
		return []string{fmt.Sprintf("c_%d", tag), fmt.Sprintf("root.r_%d", tag), fmt.Sprintf("k_%d", tag), fmt.Sprintf("root.q_%d", tag)}
	case "dynamic":
		return []string{fmt.Sprintf("k_%d", tag), fmt.Sprintf("root.q_%d", tag)}
	}
	return nil
}

func c14Rules(c c14Case) fxRules {
	var r fxRules
	for tag, d := range c.Dests {
		dyn := fxDef{Type: "dynamic", Rate: 1, Fields: []string{fmt.Sprintf("k_%d", tag), fmt.Sprintf("root.q_%d", tag)}}
		switch d.Shape {
		case "rules":
			hit, root, dn := c14RuleNames(tag)
			r.Dests = append(r.Dests, fxDest{Name: d.Name, Rules: []fxRule{
				{Name: hit, SampleRate: 1, Conds: []fxCond{{Field: fmt.Sprintf("c_%d", tag), Operator: "=", Value: "yes"}}},
				{Name: root, SampleRate: 1, Conds: []fxCond{{Field: fmt.Sprintf("root.r_%d", tag), Operator: "exists"}}},
				{Name: dn, Def: &dyn},
			}})
		case "dynamic":
			r.Dests = append(r.Dests, fxDest{Name: d.Name, Top: &dyn})
		default:
			r.Dests = append(r.Dests, fxDest{Name: d.Name, Top: &fxDef{Type: "deterministic", Rate: c14DetRate(tag)}})
		}
	}
	return r
}

func c14MainYAML(prefix string, workers int) string {
	return fmt.Sprintf(`General:
  ConfigurationVersion: 2
  DatasetPrefix: %q
RefineryTelemetry:
  AddRuleReasonToTrace: true
Traces:
  SendDelay: 100ms
  SendTicker: 100ms
  TraceTimeout: 1s
Collection:
  WorkerCount: %d
`, prefix, workers)
}

var c14MainValidated sync.Map // main YAML text -> error string ("" = accepted)

// c14ValidateMain runs the full validating loader once per distinct main config.
func c14ValidateMain(mainYAML string) error {
	if v, ok := c14MainValidated.Load(mainYAML); ok {
		if s := v.(string); s != "" {
			return fmt.Errorf("%s", s)
		}
		return nil
	}
	rules := fxRules{Dests: []fxDest{{Name: "__default__", Top: &fxDef{Type: "deterministic", Rate: 1}}}}
	sut, err := fxNewSUTOpts(mainYAML, rules.yamlText(), 1, 1, true)
	msg := ""
	if err != nil {
		msg = err.Error()
	} else {
		sut.stop()
	}
	c14MainValidated.Store(mainYAML, msg)
	if msg != "" {
		return fmt.Errorf("%s", msg)
	}
	return nil
}

// ---- recording transmission ----

type c14Fwd struct {
	traceID   string
	reason    string
	sampleKey string
	rate      uint
}

type c14Tx struct {
	mu  sync.Mutex
	fwd []c14Fwd
}

func (r *c14Tx) rec(ev *types.Event, traceID string) {
	f := c14Fwd{traceID: traceID, rate: ev.SampleRate}
	if v, ok := ev.Data.Get(types.MetaRefineryReason).(string); ok {
		f.reason = v
	}
	if v, ok := ev.Data.Get(types.MetaRefinerySampleKey).(string); ok {
		f.sampleKey = v
	}
	r.mu.Lock()
	r.fwd = append(r.fwd, f)
	r.mu.Unlock()
}
func (r *c14Tx) EnqueueEvent(ev *types.Event) { r.rec(ev, "") }
func (r *c14Tx) EnqueueSpan(sp *types.Span)   { r.rec(sp.Event, sp.TraceID) }

type c14NopHealth struct{}

func (c14NopHealth) Register(string, time.Duration) {}
func (c14NopHealth) Unregister(string)              {}
func (c14NopHealth) Ready(string, bool)             {}

// ---- execution ----

var c14T *testing.T

type c14Decision struct {
	found     bool
	kept      bool
	rate      uint
	reason    string // from the decision cache
	fwdReason string // meta.refinery.reason on forwarded spans
	sampleKey string
	forwarded int
}

func c14Msgpack(fields map[string]any) []byte {
	keys := make([]string, 0, len(fields))
	for k := range fields {
		keys = append(keys, k)
	}
	sort.Strings(keys)
	b := msgp.AppendMapHeader(nil, uint32(len(keys)))
	for _, k := range keys {
		b = msgp.AppendString(b, k)
		b = msgp.AppendString(b, fields[k].(string))
	}
	return b
}

// c14RouterEnv is what route.Router.getEnvironmentName does: no lookup for an
// empty or classic key, else the environment name Honeycomb reports.
func c14RouterEnv(key, env string) string {
	if key == "" || config.IsLegacyAPIKey(key) {
		return ""
	}
	return env
}

func execC14(c c14Case) vkit.Result {
	var res vkit.Result
	seenSig := map[string]bool{}
	violate := func(sig, format string, args ...any) {
		if !seenSig[sig] {
			seenSig[sig] = true
			res.Violate(sig, format, args...)
		}
	}
	classes := map[string]bool{}
	class := func(s string) {
		if !classes[s] {
			classes[s] = true
			res.Class(s)
		}
	}
	if len(c.Dests) == 0 || c.Dests[0].Name != "__default__" {
		res.Violate("harness/bad-case", "Dests[0] must be __default__")
		return res
	}
	workers := c.Workers
	if workers < 1 {
		workers = 1
	}
	rules := c14Rules(c)
	rulesText := rules.yamlText()
	if err := fxValidateRules(rulesText); err != nil {
		res.Violate("harness/invalid-rules", "%v\n%s", err, rulesText)
		return res
	}
	mainYAML := c14MainYAML(c.Prefix, workers)
	if err := c14ValidateMain(mainYAML); err != nil {
		res.Violate("harness/invalid-main-config", "%v\n%s", err, mainYAML)
		return res
	}
	sut, err := fxNewSUT(mainYAML, rulesText, 1, 1)
	if err != nil {
		res.Violate("harness/load", "cannot load generated config: %v\n%s\n%s", err, mainYAML, rulesText)
		return res
	}
	defer sut.stop()
	cfg := sut.cfg

	tagOf := func(name string) (int, bool) { // oracle: own sampler, else __default__
		for i, d := range c.Dests {
			if d.Name == name {
				return i, true
			}
		}
		return 0, false
	}
	wantName := func(verdict, env, dataset string) string {
		if verdict == "classic" {
			if c.Prefix != "" {
				return c.Prefix + "." + dataset
			}
			return dataset
		}
		return env
	}

	// ---- layer A1: key classification (config.IsLegacyAPIKey, the predicate the
	// router, DetermineSamplerKey and the collector all use) ----
	checkKey := func(cl, key string) string {
		verdict := c14Verdict(key)
		if key != "" && (verdict == "classic") != libhoney.IsClassicKey(key) {
			// the oracle and Honeycomb's own SDK disagree: the oracle is not to be trusted on this key
			violate("harness/oracle-differs-from-libhoney", "key %q: oracle says %q, libhoney.IsClassicKey=%v", key, verdict, libhoney.IsClassicKey(key))
			return ""
		}
		treated := "environment"
		if config.IsLegacyAPIKey(key) {
			treated = "classic"
		}
		if verdict == "" {
			class("key/" + cl + "/dont-care:treated-as-" + treated)
			return verdict
		}
		class("key/" + cl + "/" + verdict)
		if treated != verdict {
			violate(fmt.Sprintf("C14/classify/%s/treated-as-%s", cl, treated),
				"key %q (%s, %d chars) is a %s key by the documented shapes but refinery treats it as a %s key", key, cl, len(key), verdict, treated)
		}
		return verdict
	}
	for _, p := range c.Probes {
		checkKey(p.Class, p.Key)
	}

	// ---- layer A2 + ingestion: selector, lookup, extraction fields, payload access ----
	type trExp struct {
		verdict  string
		name     string
		tag      int
		own      bool
		selector string
	}
	exps := make([]trExp, len(c.Traces))
	built := make([][]*types.Span, len(c.Traces))
	for ti, tr := range c.Traces {
		verdict := checkKey(tr.KeyClass, tr.Key)
		e := trExp{verdict: verdict}
		renv := c14RouterEnv(tr.Key, tr.Env)
		e.selector = cfg.DetermineSamplerKey(tr.Key, renv, tr.Dataset)
		if verdict != "" {
			e.name = wantName(verdict, tr.Env, tr.Dataset)
			e.tag, e.own = tagOf(e.name)
			if e.selector != e.name {
				kind := "environment-name"
				if verdict == "classic" {
					kind = "dataset-name"
					if c.Prefix != "" {
						kind = "prefixed-dataset-name"
					}
					if strings.HasPrefix(tr.Dataset, ".") {
						kind += "/dataset-with-leading-dot"
					}
				}
				violate(fmt.Sprintf("C14/selector/%s/%s", verdict, kind),
					"trace %d: key class %s, env %q, dataset %q, DatasetPrefix %q: sampler key is %q, want %q", ti, tr.KeyClass, tr.Env, tr.Dataset, c.Prefix, e.selector, e.name)
			}
			// lookup with fallback: the configuration object returned for the expected name
			got, typ := cfg.GetSamplerConfigForDestName(e.name)
			if !c14ConfigIs(got, c.Dests[e.tag], e.tag) {
				violate(fmt.Sprintf("C14/lookup/%s", map[bool]string{true: "own-sampler", false: "fallback-to-default"}[e.own]),
					"trace %d: destination %q should use the sampler of %q (tag %d, %s) but GetSamplerConfigForDestName returned %s %+v", ti, e.name, c.Dests[e.tag].Name, e.tag, c.Dests[e.tag].Shape, typ, got)
			}
			// ingestion-time selection: the fields to extract cover what the selected sampler reads
			have := map[string]bool{}
			for _, f := range cfg.GetSamplingKeyFieldsForDestName(e.name) {
				have[f] = true
			}
			for _, f := range c14ReadFields(c.Dests[e.tag], e.tag) {
				if !have[f] {
					violate(fmt.Sprintf("C14/ingest-fields/%s/missing", map[bool]string{true: "own-sampler", false: "fallback-to-default"}[e.own]),
						"trace %d: destination %q: sampler reads %q but GetSamplingKeyFieldsForDestName lists %v", ti, e.name, f, cfg.GetSamplingKeyFieldsForDestName(e.name))
				}
			}
			if c14IsValidKey(tr.Key) {
				if !e.own {
					class("fallback-to-default")
					res.NonTrivial = true
				}
				if verdict == "classic" && c.Prefix != "" {
					class("classic-key-with-dataset-prefix")
					res.NonTrivial = true
				}
				class("shape/" + c.Dests[e.tag].Shape)
			}
		}
		exps[ti] = e

		// build the spans the way the router does
		cu := types.NewCoreFieldsUnmarshaler(types.CoreFieldsUnmarshalerOptions{Config: cfg, APIKey: tr.Key, Env: renv, Dataset: tr.Dataset})
		for si, s := range tr.Spans {
			fields := map[string]any{"trace.trace_id": fmt.Sprintf("trace-%d", ti), "uid": fmt.Sprintf("u%d-%d", ti, si)}
			if !s.Root {
				fields["trace.parent_id"] = "p"
			}
			for k, v := range s.Fields {
				fields[k] = v
			}
			pl := types.NewPayload(cfg, nil)
			var perr error
			switch s.Mode {
			case "otlp":
				perr = cu.UnmarshalMsgpEventMetadataOnly(c14Msgpack(fields), &pl)
			case "map":
				pl = types.NewPayload(cfg, fields)
			default:
				_, perr = cu.UnmarshalMsgpFirstEvent(c14Msgpack(fields), &pl)
			}
			if perr == nil {
				perr = pl.ExtractMetadata()
			}
			if perr != nil {
				violate("harness/payload", "trace %d span %d (%s): %v", ti, si, s.Mode, perr)
				return res
			}
			// every field of the payload (in particular those the selected sampler reads) must be readable
			names := make([]string, 0, len(s.Fields)+4)
			for k := range s.Fields {
				names = append(names, k)
			}
			for tag := range c.Dests {
				names = append(names, fmt.Sprintf("c_%d", tag), fmt.Sprintf("k_%d", tag), fmt.Sprintf("r_%d", tag), fmt.Sprintf("q_%d", tag))
			}
			sort.Strings(names)
			for _, f := range names {
				want, wantOK := s.Fields[f]
				gotOK := pl.Exists(f)
				got := pl.Get(f)
				if gotOK != wantOK || (wantOK && got != any(want)) || (!wantOK && got != nil) {
					violate(fmt.Sprintf("C14/payload/%s/exists-get-disagree-with-content", s.Mode),
						"trace %d span %d (%s, key class %s): field %q: payload has it=%v (%q) but Exists=%v Get=%v", ti, si, s.Mode, tr.KeyClass, f, wantOK, want, gotOK, got)
				}
			}
			ev := &types.Event{APIHost: "http://honeycomb.test", APIKey: tr.Key, Dataset: tr.Dataset, Environment: renv, SampleRate: 1,
				Timestamp: time.Unix(1_700_000_000, 0), Data: pl}
			built[ti] = append(built[ti], &types.Span{Event: ev, TraceID: ev.Data.MetaTraceID, IsRoot: ev.Data.MetaRefineryRoot.Value})
		}
	}

	if len(res.Violations) > 0 {
		// the configuration layer already disagrees with the oracle; running the
		// collector on top adds nothing (and a nil sampler config makes refinery exit)
		return res
	}

	// ---- layer B: the real collector decides ----
	decisions := make([]c14Decision, len(c.Traces))
	var panicMsg string
	func() {
		defer func() {
			if p := recover(); p != nil {
				panicMsg = fmt.Sprint(p)
			}
		}()
		synctest.Test(c14T, func(t *testing.T) {
			c14RunCollector(cfg, built, decisions)
		})
	}()
	if panicMsg != "" {
		violate("harness/collector-panic", "%s", panicMsg)
		return res
	}

	for ti, tr := range c.Traces {
		e := exps[ti]
		d := decisions[ti]
		if e.verdict == "" {
			class("trace-with-dont-care-key(not judged)")
			continue
		}
		if !c14IsValidKey(tr.Key) {
			// malformed key: Honeycomb's auth lookup refuses it, no trace ever reaches the collector
			class("trace-with-malformed-key(classification judged only)")
			continue
		}
		where := map[bool]string{true: "own-sampler", false: "fallback-to-default"}[e.own]
		dest := c.Dests[e.tag]
		ctx := fmt.Sprintf("trace %d (key class %s, env %q, dataset %q, prefix %q -> destination %q, sampler of %q tag %d %s)", ti, tr.KeyClass, tr.Env, tr.Dataset, c.Prefix, e.name, dest.Name, e.tag, dest.Shape)
		if !d.found {
			violate("C14/decision/none", "%s: no decision recorded", ctx)
			continue
		}
		// which sampler decided? markers of other destinations must not appear
		foreign := ""
		for tag := range c.Dests {
			if tag == e.tag {
				continue
			}
			h, r, dn := c14RuleNames(tag)
			for _, m := range []string{h, r, dn} {
				if strings.Contains(d.reason, m) || strings.Contains(d.fwdReason, m) {
					foreign = m
				}
			}
			for _, tok := range []string{fmt.Sprintf("k%dv", tag), fmt.Sprintf("q%dv", tag)} {
				if strings.Contains(d.sampleKey, tok) {
					foreign = "sample key token " + tok
				}
			}
			if dest.Shape == "deterministic" && c.Dests[tag].Shape == "deterministic" && int(d.rate) == c14DetRate(tag) {
				foreign = fmt.Sprintf("deterministic rate %d", d.rate)
			}
		}
		if foreign != "" {
			violate(fmt.Sprintf("C14/decision/%s/%s/other-destinations-sampler", e.verdict, where), "%s: decision carries %q: reason=%q sample_key=%q rate=%d", ctx, foreign, d.reason, d.sampleKey, d.rate)
			continue
		}
		if dest.Shape != "deterministic" && d.forwarded == 0 {
			violate(fmt.Sprintf("C14/decision/%s/%s/wrong-sampler", e.verdict, where), "%s: the expected sampler keeps every trace, but the trace was dropped (kept=%v rate=%d reason=%q)", ctx, d.kept, d.rate, d.reason)
			continue
		}
		switch dest.Shape {
		case "deterministic":
			if d.forwarded == 0 {
				// dropped: the decision cache keeps neither rate nor reason of dropped traces
				class("deterministic-destination-dropped-the-trace(unobservable)")
				continue
			}
			if int(d.rate) != c14DetRate(e.tag) {
				violate(fmt.Sprintf("C14/decision/%s/%s/wrong-sampler", e.verdict, where), "%s: rate %d reason %q, want the deterministic sampler with rate %d", ctx, d.rate, d.reason, c14DetRate(e.tag))
			}
		case "rules", "dynamic":
			// reference evaluation of the three rules from the spans' content
			var root *c14Span
			for i := range tr.Spans {
				if tr.Spans[i].Root {
					root = &tr.Spans[i]
				}
			}
			hit, rootRule, dynRule := c14RuleNames(e.tag)
			wantRule, why := dynRule, ""
			if dest.Shape == "rules" {
				anyYes := false
				for _, s := range tr.Spans {
					if s.Fields[fmt.Sprintf("c_%d", e.tag)] == "yes" {
						anyYes = true
					}
				}
				rootHasR := false
				if root != nil {
					_, rootHasR = root.Fields[fmt.Sprintf("r_%d", e.tag)]
				}
				switch {
				case anyYes:
					wantRule, why = hit, fmt.Sprintf("c_%d", e.tag)
				case rootHasR:
					wantRule, why = rootRule, fmt.Sprintf("root.r_%d", e.tag)
				}
				if !strings.Contains(d.reason, wantRule) {
					sig := fmt.Sprintf("C14/decision/%s/%s/wrong-sampler", e.verdict, where)
					if strings.Contains(d.reason, hit) || strings.Contains(d.reason, rootRule) || strings.Contains(d.reason, dynRule) {
						// right sampler, wrong rule: a field it reads was not seen (or seen although absent)
						which := "unexpected-match"
						if why != "" {
							which = strings.SplitN(why, "_", 2)[0] // "c" or "root.r"
						}
						sig = fmt.Sprintf("C14/decision/%s/%s/field-visibility/%s", e.verdict, where, which)
					}
					violate(sig, "%s: reason %q, want rule %q", ctx, d.reason, wantRule)
					continue
				}
			} else if strings.Contains(d.reason, "T") && (strings.Contains(d.reason, "hit-") || strings.Contains(d.reason, "root-") || strings.Contains(d.reason, "dyn-")) {
				violate(fmt.Sprintf("C14/decision/%s/%s/wrong-sampler", e.verdict, where), "%s: reason %q, want the top-level dynamic sampler", ctx, d.reason)
				continue
			}
			if wantRule == dynRule {
				// the dynamic sampler's key must show every distinct k_<tag> value of the trace and the root's q_<tag>
				if d.forwarded == 0 {
					violate(fmt.Sprintf("C14/decision/%s/%s/not-forwarded", e.verdict, where), "%s: rate-1 dynamic sampler but nothing forwarded (kept=%v rate=%d reason=%q)", ctx, d.kept, d.rate, d.reason)
					continue
				}
				var toks []string
				for _, s := range tr.Spans {
					if v, ok := s.Fields[fmt.Sprintf("k_%d", e.tag)]; ok {
						toks = append(toks, v)
					}
				}
				for _, tok := range toks {
					if !strings.Contains(d.sampleKey, tok) {
						violate(fmt.Sprintf("C14/decision/%s/%s/field-visibility/k", e.verdict, where), "%s: sample key %q lacks %q (value of k_%d on some span)", ctx, d.sampleKey, tok, e.tag)
					}
				}
				if root != nil {
					if v, ok := root.Fields[fmt.Sprintf("q_%d", e.tag)]; ok && !strings.Contains(d.sampleKey, v) {
						violate(fmt.Sprintf("C14/decision/%s/%s/field-visibility/root.q", e.verdict, where), "%s: sample key %q lacks %q (value of root.q_%d)", ctx, d.sampleKey, v, e.tag)
					}
				}
				class("decided-by-dynamic-key")
			} else {
				class("decided-by-rule-condition")
			}
		}
		class("judged/" + e.verdict + "/" + where)
	}
	return res
}

// c14ConfigIs reports whether the sampler configuration object refinery
// returned is the one the rules file gives destination d (recognised by its
// rule names / field names / rate, which are unique per destination).
func c14ConfigIs(got any, d c14Dest, tag int) bool {
	switch g := got.(type) {
	case *config.RulesBasedSamplerConfig:
		hit, _, _ := c14RuleNames(tag)
		return d.Shape == "rules" && len(g.Rules) == 3 && g.Rules[0].Name == hit
	case *config.DynamicSamplerConfig:
		return d.Shape == "dynamic" && len(g.FieldList) == 2 && g.FieldList[0] == fmt.Sprintf("k_%d", tag)
	case *config.DeterministicSamplerConfig:
		return d.Shape == "deterministic" && g.SampleRate == c14DetRate(tag)
	}
	return false
}

// c14RunCollector runs a real InMemCollector (real workers, real
// SamplerFactory, the loaded fileConfig) inside a synctest bubble, hands it the
// spans, lets virtual time pass and reads decisions and forwarded spans.
func c14RunCollector(cfg config.Config, built [][]*types.Span, decisions []c14Decision) {
	met := &metrics.MockMetrics{}
	met.Start()
	clock := clockwork.NewRealClock()
	tx := &c14Tx{}
	peerTx := &c14Tx{}
	ps := &pubsub.LocalPubSub{Config: cfg, Metrics: met}
	ps.Start()
	peers := peer.NewMockPeers([]string{"api1"}, "api1")
	sf := &sample.SamplerFactory{Config: cfg, Metrics: met, Logger: &logger.NullLogger{}, Peers: peers}
	if err := sf.Start(); err != nil {
		panic(err)
	}
	coll := &collect.InMemCollector{
		Config: cfg, Clock: clock, Logger: &logger.NullLogger{}, Tracer: noop.NewTracerProvider().Tracer("verif"),
		Health: c14NopHealth{}, Transmission: tx, PeerTransmission: peerTx, PubSub: ps, Metrics: met,
		StressRelief: &collect.MockStressReliever{}, SamplerFactory: sf, Peers: peers,
		Sharder: &sharder.MockSharder{Self: &sharder.TestShard{Addr: "api1"}, Other: &sharder.TestShard{Addr: "api2"}},
	}
	if err := coll.Start(); err != nil {
		panic(err)
	}
	stopped := false
	defer func() {
		if !stopped {
			func() {
				defer func() { recover() }()
				_ = coll.Stop()
			}()
		}
		sf.Stop()
		ps.Stop()
		synctest.Wait()
	}()
	synctest.Wait()
	for _, spans := range built {
		for _, sp := range spans {
			if err := coll.AddSpan(sp); err != nil {
				panic(fmt.Sprintf("AddSpan: %v", err))
			}
			time.Sleep(time.Millisecond)
		}
	}
	synctest.Wait()
	time.Sleep(1500 * time.Millisecond) // > TraceTimeout + SendDelay + a few ticks
	synctest.Wait()
	for ti := range built {
		tid := fmt.Sprintf("trace-%d", ti)
		found, kept, rate, reason := coll.VerifCheckTrace(tid)
		decisions[ti] = c14Decision{found: found, kept: kept, rate: rate, reason: reason}
	}
	_ = coll.Stop()
	stopped = true
	synctest.Wait()
	tx.mu.Lock()
	for _, f := range tx.fwd {
		var ti int
		if _, err := fmt.Sscanf(f.traceID, "trace-%d", &ti); err != nil || ti < 0 || ti >= len(decisions) {
			continue
		}
		d := &decisions[ti]
		d.forwarded++
		if f.reason != "" {
			d.fwdReason = f.reason
		}
		if f.sampleKey != "" {
			d.sampleKey = f.sampleKey
		}
	}
	tx.mu.Unlock()
}

func TestC14(t *testing.T) {
	c14T = t
	vkit.Run(t, vkit.Spec[c14Case]{
		ID:   "C14",
		Rule: "rapid-generated cases: DatasetPrefix, 1-3 named destinations plus __default__, each with a recognisable sampler (3-rule RulesBasedSampler with per-destination rule names and fields, top-level DynamicSampler with per-destination fields, or DeterministicSampler with a per-destination rate); 1-5 traces with an API key drawn by shape class (classic 32-hex, classic ingest, 20-23 char environment, environment ingest, malformed near-misses, empty), an environment name, a dataset, 1-3 spans carrying the fields of every destination, each span built through one of the ingestion paths (batch msgpack extraction, OTLP metadata-only, map payload); plus up to 12 classification-only key probes (near-misses are aimed: exactly one illegal character at the first/last positions of the 32-hex key or of the ingest key's suffix, or a wrong ingest prefix). Loaded from files with config.NewConfig; spans are handed to a real InMemCollector in a synctest bubble. Oracle: key classification by the documented shapes, destination name env / [prefix.]dataset with fallback to __default__, reference evaluation of the destination's rules on the span contents. Non-trivial: a judged trace whose destination has no sampler of its own, or a classic key with DatasetPrefix set. Distinct = distinct case JSON.",
		Assumptions: []string{
			"the harness plays route.Router: environment is '' for an empty or (per config.IsLegacyAPIKey) classic key, else the name Honeycomb's /1/auth reports; spans are built like Router.processEvent builds them",
			"a key is classic iff it has exactly one of the two published classic shapes (32 lower-case hex digits; hc[a-z]ic_ + 58 x [0-9a-z]); every other non-empty key, including near-misses with one illegal character or a wrong prefix, must select by environment. The harness cross-checks this oracle against libhoney-go's IsClassicKey on every key",
			"only the empty key is don't-care (counted, not judged): no trace is sent without a key, Honeycomb's SDK calls it classic, refinery's router special-cases it before classifying",
			"traces with malformed keys are not judged beyond key classification (Honeycomb's auth lookup refuses them before any trace exists)",
			"all generated samplers keep every trace (rate 1) except DeterministicSampler destinations, which are recognised by their rate in the decision cache (collect/verif_hooks.go VerifCheckTrace)",
			"sample-key and reason formats are not pinned: only the presence of per-destination rule names / value tokens is asserted",
		},
		Gen:  genC14,
		Exec: execC14,
	})
}
