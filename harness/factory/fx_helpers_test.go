package factory

// Shared helpers of the C12/C13/C14 checks (prefix fx): a JSON-able model of a
// rules file, its rendering to YAML, loading through the real config loader,
// and a small stand-in for the collector workers' per-worker sampler cache.

import (
	"fmt"
	"os"
	"path/filepath"
	"sort"
	"strings"
	"sync"
	"time"

	"github.com/honeycombio/refinery/config"
	"github.com/honeycombio/refinery/internal/peer"
	"github.com/honeycombio/refinery/logger"
	"github.com/honeycombio/refinery/metrics"
	"github.com/honeycombio/refinery/sample"
	"gopkg.in/yaml.v3"
	"pgregory.net/rapid"
)

// fxDef is one sampler definition. Zero values mean "not written to the file"
// (i.e. the documented default). Type is one of the fxTypes or "deterministic".
type fxDef struct {
	Type   string   `json:"type"`
	Rate   int      `json:"rate"` // SampleRate / GoalSampleRate / GoalThroughputPerSec
	Fields []string `json:"fields,omitempty"`

	ClearFrequency      string  `json:"clear_frequency,omitempty"`
	MaxKeys             int     `json:"max_keys,omitempty"`
	UseTraceLength      bool    `json:"use_trace_length,omitempty"`
	UseClusterSize      bool    `json:"use_cluster_size,omitempty"`
	AdjustmentInterval  string  `json:"adjustment_interval,omitempty"`
	Weight              float64 `json:"weight,omitempty"`
	AgeOutValue         float64 `json:"age_out_value,omitempty"`
	BurstMultiple       float64 `json:"burst_multiple,omitempty"`
	BurstDetectionDelay int     `json:"burst_detection_delay,omitempty"`
	InitialSampleRate   int     `json:"initial_sample_rate,omitempty"`
	UpdateFrequency     string  `json:"update_frequency,omitempty"`
	LookbackFrequency   string  `json:"lookback_frequency,omitempty"`
}

var fxTypes = []string{"dynamic", "emadynamic", "totalthroughput", "emathroughput", "windowedthroughput"}

var fxYAMLName = map[string]string{
	"deterministic":      "DeterministicSampler",
	"dynamic":            "DynamicSampler",
	"emadynamic":         "EMADynamicSampler",
	"totalthroughput":    "TotalThroughputSampler",
	"emathroughput":      "EMAThroughputSampler",
	"windowedthroughput": "WindowedThroughputSampler",
}

var fxRateName = map[string]string{
	"deterministic":      "SampleRate",
	"dynamic":            "SampleRate",
	"emadynamic":         "GoalSampleRate",
	"totalthroughput":    "GoalThroughputPerSec",
	"emathroughput":      "GoalThroughputPerSec",
	"windowedthroughput": "GoalThroughputPerSec",
}

// fxTuning lists, per sampler type, the tuning parameters the documentation
// gives it (everything except the type, the target rate/throughput and the key
// fields).
var fxTuning = map[string][]string{
	"dynamic":            {"ClearFrequency", "MaxKeys", "UseTraceLength"},
	"emadynamic":         {"AdjustmentInterval", "Weight", "AgeOutValue", "BurstMultiple", "BurstDetectionDelay", "MaxKeys", "UseTraceLength"},
	"totalthroughput":    {"UseClusterSize", "ClearFrequency", "MaxKeys", "UseTraceLength"},
	"emathroughput":      {"UseClusterSize", "InitialSampleRate", "AdjustmentInterval", "Weight", "AgeOutValue", "BurstMultiple", "BurstDetectionDelay", "MaxKeys", "UseTraceLength"},
	"windowedthroughput": {"UseClusterSize", "UpdateFrequency", "LookbackFrequency", "MaxKeys", "UseTraceLength"},
}

func (d fxDef) isThroughput() bool {
	return d.Type == "totalthroughput" || d.Type == "emathroughput" || d.Type == "windowedthroughput"
}

// param returns the value of a named tuning parameter as the oracle compares
// it: nil when not set, and also nil for a duration written as an explicit zero
// ("0s"), which is the same configuration as leaving it out.
func (d fxDef) param(name string) any {
	v := d.rawParam(name)
	if sv, ok := v.(string); ok {
		if dur, err := time.ParseDuration(sv); err == nil && dur == 0 {
			return nil
		}
	}
	return v
}

// rawParam returns the value as written to the rules file (nil = not written).
func (d fxDef) rawParam(name string) any {
	switch name {
	case "ClearFrequency":
		if d.ClearFrequency != "" {
			return d.ClearFrequency
		}
	case "MaxKeys":
		if d.MaxKeys != 0 {
			return d.MaxKeys
		}
	case "UseTraceLength":
		if d.UseTraceLength {
			return true
		}
	case "UseClusterSize":
		if d.UseClusterSize {
			return true
		}
	case "AdjustmentInterval":
		if d.AdjustmentInterval != "" {
			return d.AdjustmentInterval
		}
	case "Weight":
		if d.Weight != 0 {
			return d.Weight
		}
	case "AgeOutValue":
		if d.AgeOutValue != 0 {
			return d.AgeOutValue
		}
	case "BurstMultiple":
		if d.BurstMultiple != 0 {
			return d.BurstMultiple
		}
	case "BurstDetectionDelay":
		if d.BurstDetectionDelay != 0 {
			return d.BurstDetectionDelay
		}
	case "InitialSampleRate":
		if d.InitialSampleRate != 0 {
			return d.InitialSampleRate
		}
	case "UpdateFrequency":
		if d.UpdateFrequency != "" {
			return d.UpdateFrequency
		}
	case "LookbackFrequency":
		if d.LookbackFrequency != "" {
			return d.LookbackFrequency
		}
	}
	return nil
}

// setParam sets tuning parameter name to one of its non-default values:
// idx 1, 2 = ordinary values; 3 = a value refinery's validator accepts but the
// samplers normalise (negative duration / negative count); 4 = an explicit zero
// duration (same configuration as unset). Parameters without an odd value fall
// back to an ordinary one.
func (d *fxDef) setParam(name string, idx int) {
	pick := func(vals ...any) any {
		i := idx - 1
		if i < 0 {
			i = 0
		}
		if i >= len(vals) {
			i = (idx - 1) % 2
		}
		return vals[i]
	}
	switch name {
	case "ClearFrequency":
		d.ClearFrequency = pick("10s", "1m0s", "-10s", "0s").(string)
	case "MaxKeys":
		d.MaxKeys = pick(100, 1000, -5).(int)
	case "UseTraceLength":
		d.UseTraceLength = true
	case "UseClusterSize":
		d.UseClusterSize = true
	case "AdjustmentInterval":
		d.AdjustmentInterval = pick("5s", "20s", "-5s", "0s").(string)
	case "Weight":
		d.Weight = pick(0.25, 0.75).(float64)
	case "AgeOutValue":
		d.AgeOutValue = pick(0.25, 0.75).(float64)
	case "BurstMultiple":
		d.BurstMultiple = pick(3.0, 5.0, -2.0).(float64)
	case "BurstDetectionDelay":
		d.BurstDetectionDelay = pick(5, 7).(int)
	case "InitialSampleRate":
		d.InitialSampleRate = pick(5, 20, -3).(int)
	case "UpdateFrequency":
		d.UpdateFrequency = pick("2s", "5s", "-2s", "0s").(string)
	case "LookbackFrequency":
		d.LookbackFrequency = pick("20s", "40s", "-20s", "0s").(string)
	}
}

// fxDrawPval draws the value index for setParam: mostly ordinary values.
func fxDrawPval(t *rapid.T, label string) int {
	return rapid.SampledFrom([]int{1, 2, 1, 2, 3, 3, 4}).Draw(t, label)
}

func fxSortedFields(f []string) []string {
	s := append([]string(nil), f...)
	sort.Strings(s)
	return s
}

// canon is the oracle's notion of "the entire configuration": every parameter,
// with the key-field list read as a set (refinery documents/pins that field
// order is not a difference).
func (d fxDef) canon() string {
	var b strings.Builder
	fmt.Fprintf(&b, "%s|%d|%q", d.Type, d.Rate, fxSortedFields(d.Fields))
	for _, p := range fxTuning[d.Type] {
		fmt.Fprintf(&b, "|%s=%v", p, d.param(p))
	}
	return b.String()
}

// fxDiff lists the parameters in which two definitions differ: primary = type,
// target rate, key-field set; tuning = all others.
func fxDiff(a, b fxDef) (primary, tuning []string) {
	if a.Type != b.Type {
		return []string{"Type"}, nil
	}
	if a.Rate != b.Rate {
		primary = append(primary, fxRateName[a.Type])
	}
	if fmt.Sprintf("%q", fxSortedFields(a.Fields)) != fmt.Sprintf("%q", fxSortedFields(b.Fields)) {
		primary = append(primary, "FieldList")
	}
	for _, p := range fxTuning[a.Type] {
		if fmt.Sprint(a.param(p)) != fmt.Sprint(b.param(p)) {
			tuning = append(tuning, p)
		}
	}
	return primary, tuning
}

func (d fxDef) yamlBody() map[string]any {
	m := map[string]any{fxRateName[d.Type]: d.Rate}
	if d.Type == "deterministic" {
		return m
	}
	m["FieldList"] = append([]string(nil), d.Fields...)
	for _, p := range fxTuning[d.Type] {
		if v := d.rawParam(p); v != nil {
			m[p] = v
		}
	}
	return m
}

func (d fxDef) yamlChoice() map[string]any {
	return map[string]any{fxYAMLName[d.Type]: d.yamlBody()}
}

// fxCond is a rule condition (kept simple; C08 explores rule semantics).
type fxCond struct {
	Field    string `json:"field"`
	Operator string `json:"operator"`
	Value    any    `json:"value,omitempty"`
}

// fxRule is one rule of a RulesBasedSampler: a downstream definition, or a
// fixed SampleRate / Drop.
type fxRule struct {
	Name       string   `json:"name"`
	Conds      []fxCond `json:"conds,omitempty"`
	Def        *fxDef   `json:"def,omitempty"`
	SampleRate int      `json:"sample_rate,omitempty"`
	Drop       bool     `json:"drop,omitempty"`
}

// fxDest is the sampler configured for one destination name.
type fxDest struct {
	Name  string   `json:"name"`
	Top   *fxDef   `json:"top,omitempty"`   // non-rules sampler
	Rules []fxRule `json:"rules,omitempty"` // rules-based sampler when Top == nil
}

// fxRules is a whole rules file. A __default__ destination is always present.
type fxRules struct {
	Dests []fxDest `json:"dests"`
}

func (r fxRules) lookup(name string) (fxDest, bool) {
	for _, d := range r.Dests {
		if d.Name == name {
			return d, true
		}
	}
	return fxDest{}, false
}

// resolve implements the documented selection: the named destination if it has
// a sampler, else __default__.
func (r fxRules) resolve(name string) fxDest {
	if d, ok := r.lookup(name); ok {
		return d
	}
	d, _ := r.lookup("__default__")
	return d
}

func (r fxRules) yamlText() string {
	samplers := map[string]any{}
	for _, d := range r.Dests {
		if d.Top != nil {
			samplers[d.Name] = d.Top.yamlChoice()
			continue
		}
		var rules []any
		for _, ru := range d.Rules {
			m := map[string]any{}
			if ru.Name != "" { // rule names are optional
				m["Name"] = ru.Name
			}
			if len(ru.Conds) > 0 {
				var cs []any
				for _, c := range ru.Conds {
					cm := map[string]any{"Field": c.Field, "Operator": c.Operator}
					if c.Value != nil {
						cm["Value"] = c.Value
					}
					cs = append(cs, cm)
				}
				m["Conditions"] = cs
			}
			switch {
			case ru.Def != nil:
				m["Sampler"] = ru.Def.yamlChoice()
			case ru.Drop:
				m["Drop"] = true
			default:
				m["SampleRate"] = ru.SampleRate
			}
			rules = append(rules, m)
		}
		samplers[d.Name] = map[string]any{"RulesBasedSampler": map[string]any{"Rules": rules}}
	}
	b, err := yaml.Marshal(map[string]any{"RulesVersion": 2, "Samplers": samplers})
	if err != nil {
		panic(err)
	}
	return string(b)
}

var (
	fxMetaOnce sync.Once
	fxMeta     *config.Metadata
)

// fxValidateRules runs refinery's own rules validator (the same
// Metadata.ValidateRules the loader calls) on the YAML text. The rules files
// are then loaded with --no-validate only because the loader re-parses its
// metadata on every load (~60 ms), not to admit anything the validator rejects.
func fxValidateRules(text string) error {
	fxMetaOnce.Do(func() {
		m, err := config.LoadRulesMetadata()
		if err != nil {
			panic(err)
		}
		fxMeta = m
	})
	var data map[string]any
	if err := yaml.Unmarshal([]byte(text), &data); err != nil {
		return err
	}
	var msgs []string
	for _, r := range fxMeta.ValidateRules(data) {
		if r.IsError() {
			msgs = append(msgs, r.Message)
		}
	}
	if len(msgs) > 0 {
		return fmt.Errorf("rules rejected by refinery's validator: %s", strings.Join(msgs, "; "))
	}
	return nil
}

// fxSUT is the system under test: real fileConfig loaded from files in a
// per-case temp dir, real SamplerFactory, MockPeers, MockMetrics, and W worker
// caches that behave like collect.CollectorWorker.datasetSamplers.
type fxSUT struct {
	dir       string
	rulesPath string
	cfg       config.Config
	factory   *sample.SamplerFactory
	met       *metrics.MockMetrics
	peers     *peer.MockPeers
	caches    []map[string]sample.Sampler
	reloads   int // reload callbacks received
}

func fxPeerList(n int) []string {
	out := make([]string, n)
	for i := range out {
		out[i] = fmt.Sprintf("http://peer-%d:8081", i)
	}
	return out
}

// fxNewSUT writes the two files, loads them with config.NewConfig and starts a
// SamplerFactory. mainYAML is the body of the main config file.
func fxNewSUT(mainYAML, rulesYAML string, workers, peers int) (*fxSUT, error) {
	return fxNewSUTOpts(mainYAML, rulesYAML, workers, peers, false)
}

// fxNewSUTOpts: with validate set, the loader's own validation of both files runs too (slow).
func fxNewSUTOpts(mainYAML, rulesYAML string, workers, peers int, validate bool) (*fxSUT, error) {
	dir, err := os.MkdirTemp("", "fx-case-")
	if err != nil {
		return nil, err
	}
	s := &fxSUT{dir: dir, rulesPath: filepath.Join(dir, "rules.yaml")}
	cfgPath := filepath.Join(dir, "config.yaml")
	if err := os.WriteFile(cfgPath, []byte(mainYAML), 0o644); err != nil {
		return nil, err
	}
	if err := os.WriteFile(s.rulesPath, []byte(rulesYAML), 0o644); err != nil {
		return nil, err
	}
	args := []string{"--config", cfgPath, "--rules_config", s.rulesPath}
	if !validate {
		args = append([]string{"--no-validate"}, args...)
	}
	opts, err := config.NewCmdEnvOptions(args)
	if err != nil {
		os.RemoveAll(dir)
		return nil, err
	}
	c, err := config.NewConfig(opts)
	if err != nil {
		os.RemoveAll(dir)
		return nil, err
	}
	s.cfg = c
	s.met = &metrics.MockMetrics{}
	s.met.Start()
	s.peers = peer.NewMockPeers(fxPeerList(peers), "")
	s.factory = &sample.SamplerFactory{Config: c, Logger: &logger.NullLogger{}, Metrics: s.met, Peers: s.peers}
	if err := s.factory.Start(); err != nil {
		os.RemoveAll(dir)
		return nil, err
	}
	s.caches = make([]map[string]sample.Sampler, workers)
	for i := range s.caches {
		s.caches[i] = map[string]sample.Sampler{}
	}
	// what collect.InMemCollector.reloadConfigs does on a reload callback:
	// clear the shared registry, then every worker clears its local cache.
	c.RegisterReloadCallback(func(_, _ string) {
		s.reloads++
		s.factory.ClearDynsamplers()
		for i := range s.caches {
			clear(s.caches[i])
		}
	})
	return s, nil
}

// get is collect.CollectorWorker.makeDecision's lookup: cached, else created
// through the factory and cached. created reports a cache miss.
func (s *fxSUT) get(worker int, dest string) (sm sample.Sampler, created bool) {
	if sm, ok := s.caches[worker][dest]; ok {
		return sm, false
	}
	sm = s.factory.GetSamplerImplementationForKey(dest)
	s.caches[worker][dest] = sm
	return sm, true
}

// reload rewrites the rules file and asks the real config to reload.
func (s *fxSUT) reload(rulesYAML string) error {
	if err := os.WriteFile(s.rulesPath, []byte(rulesYAML), 0o644); err != nil {
		return err
	}
	return s.cfg.Reload()
}

func (s *fxSUT) stop() {
	s.factory.Stop()
	os.RemoveAll(s.dir)
}

func (s *fxSUT) gauge(name string) (float64, bool) {
	return s.met.Get(name)
}

const fxMainYAML = "General:\n  ConfigurationVersion: 2\n"

// ---- generators shared by C12 and C13 ----

var fxFieldLists = [][]string{{"a"}, {"b"}, {"a", "b"}, {"b", "a"}, {"a", "b", "c"}}

// fxGenDef draws a definition: a base (type, rate, fields) plus 0..2 tuning
// tweaks. types restricts the sampler types; rates the target values.
func fxGenDef(t *rapid.T, label string, types []string, rates []int, fieldLists [][]string) fxDef {
	d := fxDef{
		Type: rapid.SampledFrom(types).Draw(t, label+"/type"),
		Rate: rapid.SampledFrom(rates).Draw(t, label+"/rate"),
	}
	d.Fields = append([]string(nil), rapid.SampledFrom(fieldLists).Draw(t, label+"/fields")...)
	fxGenTweaks(t, label, &d)
	return d
}

func fxGenTweaks(t *rapid.T, label string, d *fxDef) {
	n := rapid.SampledFrom([]int{0, 0, 1, 1, 1, 2}).Draw(t, label+"/ntweaks")
	params := fxTuning[d.Type]
	for i := 0; i < n; i++ {
		p := rapid.SampledFrom(params).Draw(t, label+"/param")
		d.setParam(p, fxDrawPval(t, label+"/pval"))
	}
}
