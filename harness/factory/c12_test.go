package factory

import (
	"fmt"
	"sort"
	"strings"
	"testing"

	"github.com/honeycombio/refinery/sample"
	"github.com/honeycombio/refinery/verifharness/vkit"
	"pgregory.net/rapid"
)

// C12: sampler state is shared across workers and isolated between definitions.

type c12Op struct {
	Op     string `json:"op"` // get | reload
	Worker int    `json:"worker,omitempty"`
	Dest   string `json:"dest,omitempty"`
	To     int    `json:"to,omitempty"` // reload: index of the rules version to load (mod number of versions)
}

type c12Case struct {
	Workers  int       `json:"workers"`
	Versions []fxRules `json:"versions"`
	Ops      []c12Op   `json:"ops"`
	// Conc, when set, selects the concurrent sub-mode (Ops and Workers unused):
	// lazy creation by several workers at the same moment, on Versions[0].
	Conc *c12Conc `json:"conc,omitempty"`
}

// c12Conc: Goroutines workers are released by one start barrier and each asks
// the factory for the samplers of Dests (in that order, rotated by the worker
// index when Rotate), on a fresh SamplerFactory, Reps times. With Gate the
// first worker that gets as far as registering the metrics of a new dynsampler
// (metrics.Metrics.Register, called by refinery during creation) is held there
// by the harness' Metrics double until the other workers are done or cannot
// get on - which widens the window "one worker is mid-creation" without
// touching refinery.
type c12Conc struct {
	Goroutines int      `json:"goroutines"`
	Reps       int      `json:"reps"`
	Gate       bool     `json:"gate"`
	Rotate     bool     `json:"rotate,omitempty"`
	Dests      []string `json:"dests"`
}

// destination names a worker may ask for. "west", "east" never have a sampler of their
// own (-> __default__). "rules:prod:" is a legal map key / dataset name that
// looks like the prefix refinery derives for the rule samplers of "prod".
var c12LookupNames = []string{"prod", "staging", "west", "east", "rules:prod:"}

// draw weights: prod and staging are asked for more often so that several
// workers meet on one destination
var c12LookupDraw = []string{"prod", "prod", "prod", "staging", "staging", "west", "east", "rules:prod:"}

var c12FieldLists = [][]string{{"a"}, {"b"}, {"a", "b"}, {"b", "a"}, {"a", "b", "c"}, {"a b"}}
var c12Rates = []int{10, 20}

func c12GenRulesDest(t *rapid.T, name string) fxDest {
	d := fxDest{Name: name}
	lbl := name
	base := fxDef{
		Type:   rapid.SampledFrom(fxTypes).Draw(t, lbl+"/basetype"),
		Rate:   rapid.SampledFrom(c12Rates).Draw(t, lbl+"/baserate"),
		Fields: append([]string(nil), rapid.SampledFrom(c12FieldLists).Draw(t, lbl+"/basefields")...),
	}
	n := rapid.IntRange(1, 4).Draw(t, lbl+"/nrules")
	// rule names are optional and nothing requires them to be unique: some
	// destinations give every rule the same name, some leave the rules unnamed
	naming := rapid.SampledFrom([]string{"unique", "unique", "unique", "unique", "same", "same", "none"}).Draw(t, lbl+"/naming")
	for i := 0; i < n; i++ {
		rl := fmt.Sprintf("%s/r%d", lbl, i)
		ru := fxRule{Name: fmt.Sprintf("r%d", i)}
		switch naming {
		case "same":
			ru.Name = "rule"
		case "none":
			ru.Name = ""
		}
		if i < n-1 {
			ru.Conds = []fxCond{{Field: "k", Operator: "=", Value: i}}
		}
		v := rapid.IntRange(0, 9).Draw(t, rl+"/variant")
		def := base
		def.Fields = append([]string(nil), base.Fields...)
		switch {
		case v <= 4:
			fxGenTweaks(t, rl, &def)
		case v == 5:
			def.Rate = rapid.SampledFrom(c12Rates).Draw(t, rl+"/rate")
		case v == 6:
			def.Fields = append([]string(nil), rapid.SampledFrom(c12FieldLists).Draw(t, rl+"/fields")...)
		case v == 7:
			def.Type = rapid.SampledFrom(fxTypes).Draw(t, rl+"/type")
		case v == 8:
			def = fxGenDef(t, rl, fxTypes, c12Rates, c12FieldLists)
		default:
			if rapid.Bool().Draw(t, rl+"/drop") {
				ru.Drop = true
			} else {
				ru.SampleRate = rapid.IntRange(1, 10).Draw(t, rl+"/samplerate")
			}
			d.Rules = append(d.Rules, ru)
			continue
		}
		c12OddRate(t, rl, &def)
		ru.Def = &def
		d.Rules = append(d.Rules, ru)
	}
	return d
}

// c12OddRate: now and then a target rate the validator accepts although it makes
// little sense (SampleRate / GoalSampleRate 0 or negative; throughput goals
// below 1 are rejected by the validator and never generated).
func c12OddRate(t *rapid.T, label string, d *fxDef) {
	if (d.Type == "dynamic" || d.Type == "emadynamic") && rapid.IntRange(0, 11).Draw(t, label+"/oddrate") == 0 {
		d.Rate = rapid.SampledFrom([]int{0, -3}).Draw(t, label+"/oddratevalue")
	}
}

func c12GenDest(t *rapid.T, name string) fxDest {
	k := rapid.IntRange(0, 9).Draw(t, name+"/kind")
	switch {
	case k <= 5:
		return c12GenRulesDest(t, name)
	case k <= 8:
		def := fxGenDef(t, name+"/top", fxTypes, c12Rates, c12FieldLists)
		c12OddRate(t, name+"/top", &def)
		return fxDest{Name: name, Top: &def}
	default:
		return fxDest{Name: name, Top: &fxDef{Type: "deterministic", Rate: rapid.IntRange(1, 10).Draw(t, name+"/detrate")}}
	}
}

func c12GenRules(t *rapid.T) fxRules {
	var r fxRules
	if rapid.IntRange(0, 9).Draw(t, "default/det") < 4 {
		r.Dests = append(r.Dests, fxDest{Name: "__default__", Top: &fxDef{Type: "deterministic", Rate: 1}})
	} else {
		r.Dests = append(r.Dests, c12GenDest(t, "__default__"))
	}
	if rapid.IntRange(0, 9).Draw(t, "has/prod") < 8 {
		r.Dests = append(r.Dests, c12GenDest(t, "prod"))
	}
	if rapid.IntRange(0, 9).Draw(t, "has/staging") < 5 {
		r.Dests = append(r.Dests, c12GenDest(t, "staging"))
	}
	if rapid.IntRange(0, 19).Draw(t, "has/lookalike") < 3 {
		d := c12GenDest(t, "rules:prod:")
		// aim: most of the time give it, as its top-level sampler, a copy of one
		// of prod's rule samplers
		if p, ok := r.lookup("prod"); ok && rapid.IntRange(0, 9).Draw(t, "lookalike/copy") < 7 {
			var defs []fxDef
			for _, ru := range p.Rules {
				if ru.Def != nil {
					defs = append(defs, *ru.Def)
				}
			}
			if len(defs) > 0 {
				cp := defs[rapid.IntRange(0, len(defs)-1).Draw(t, "lookalike/which")]
				cp.Fields = append([]string(nil), cp.Fields...)
				d = fxDest{Name: "rules:prod:", Top: &cp}
			}
		}
		r.Dests = append(r.Dests, d)
	}
	return r
}

func c12CopyRules(r fxRules) fxRules {
	var out fxRules
	for _, d := range r.Dests {
		nd := fxDest{Name: d.Name}
		if d.Top != nil {
			cp := *d.Top
			cp.Fields = append([]string(nil), cp.Fields...)
			nd.Top = &cp
		}
		for _, ru := range d.Rules {
			nr := ru
			nr.Conds = append([]fxCond(nil), ru.Conds...)
			if ru.Def != nil {
				cp := *ru.Def
				cp.Fields = append([]string(nil), cp.Fields...)
				nr.Def = &cp
			}
			nd.Rules = append(nd.Rules, nr)
		}
		out.Dests = append(out.Dests, nd)
	}
	return out
}

// c12Mutate is an operator's edit of the rules file: one definition gets one
// parameter changed (a tuning parameter, the rate or the field list).
func c12Mutate(t *rapid.T, prev fxRules) fxRules {
	r := c12CopyRules(prev)
	var defs []*fxDef
	for i := range r.Dests {
		if r.Dests[i].Top != nil && r.Dests[i].Top.Type != "deterministic" {
			defs = append(defs, r.Dests[i].Top)
		}
		for j := range r.Dests[i].Rules {
			if r.Dests[i].Rules[j].Def != nil {
				defs = append(defs, r.Dests[i].Rules[j].Def)
			}
		}
	}
	if len(defs) == 0 {
		return c12GenRules(t)
	}
	d := defs[rapid.IntRange(0, len(defs)-1).Draw(t, "mutate/which")]
	switch k := rapid.IntRange(0, 9).Draw(t, "mutate/kind"); {
	case k <= 6:
		p := rapid.SampledFrom(fxTuning[d.Type]).Draw(t, "mutate/param")
		d.setParam(p, fxDrawPval(t, "mutate/pval"))
	case k <= 8:
		d.Rate = rapid.SampledFrom(c12Rates).Draw(t, "mutate/rate")
	default:
		d.Fields = append([]string(nil), rapid.SampledFrom(c12FieldLists).Draw(t, "mutate/fields")...)
	}
	return r
}

func genC12(t *rapid.T) c12Case {
	c := c12Case{Workers: rapid.IntRange(1, 4).Draw(t, "workers")}
	c.Versions = []fxRules{c12GenRules(t)}
	nv := rapid.IntRange(1, 3).Draw(t, "nversions")
	for len(c.Versions) < nv {
		prev := c.Versions[len(c.Versions)-1]
		if rapid.IntRange(0, 9).Draw(t, "version/independent") < 3 {
			c.Versions = append(c.Versions, c12GenRules(t))
		} else {
			c.Versions = append(c.Versions, c12Mutate(t, prev))
		}
	}
	opGen := rapid.Custom(func(t *rapid.T) c12Op {
		if rapid.IntRange(0, 9).Draw(t, "opkind") < 8 {
			return c12Op{Op: "get", Worker: rapid.IntRange(0, 3).Draw(t, "worker"), Dest: rapid.SampledFrom(c12LookupDraw).Draw(t, "dest")}
		}
		return c12Op{Op: "reload", To: rapid.IntRange(0, 2).Draw(t, "to")}
	})
	if rapid.IntRange(0, 9).Draw(t, "mode/concurrent") < 3 {
		c.Versions = c.Versions[:1]
		c.Conc = &c12Conc{
			Goroutines: rapid.SampledFrom([]int{2, 4, 8}).Draw(t, "conc/goroutines"),
			Reps:       c12ConcReps(),
			Gate:       rapid.IntRange(0, 9).Draw(t, "conc/gate") < 7,
			Rotate:     rapid.IntRange(0, 9).Draw(t, "conc/rotate") < 3,
			Dests:      rapid.SliceOfNDistinct(rapid.SampledFrom(c12LookupDraw), 1, 3, rapid.ID[string]).Draw(t, "conc/dests"),
		}
		return c
	}
	c.Ops = rapid.SliceOfN(opGen, 1, 24).Draw(t, "ops")
	return c
}

// c12Expect is what the oracle expects behind the sampler of one destination:
// one entry per definition that carries rate-tracking state.
type c12Expect struct {
	path string
	def  fxDef
	rule string // "name:<rule name>" for a rule-downstream definition, "" for a top-level one
}

func c12Expected(d fxDest) []c12Expect {
	if d.Top != nil {
		if d.Top.Type == "deterministic" {
			return nil
		}
		return []c12Expect{{"", *d.Top, ""}}
	}
	var out []c12Expect
	for i, ru := range d.Rules {
		if ru.Def != nil {
			out = append(out, c12Expect{fmt.Sprintf("rule[%d]", i), *ru.Def, "name:" + ru.Name})
		}
	}
	return out
}

type c12Obs struct {
	epoch  int
	worker int
	dest   string
	path   string
	def    fxDef
	ptr    any
	rule   string
}

func c12NameClass(a, b string) string {
	if a == "rules:"+b+":" || b == "rules:"+a+":" {
		return "name-looks-like-rule-prefix"
	}
	return "plain-names"
}

func c12DiffClass(a, b fxDef) string {
	prim, tun := fxDiff(a, b)
	if len(prim) > 0 {
		if len(prim) == 1 && prim[0] == "FieldList" &&
			strings.Join(fxSortedFields(a.Fields), " ") == strings.Join(fxSortedFields(b.Fields), " ") {
			// different field lists that read the same once joined with spaces: ["a","b"] vs ["a b"]
			return "fieldlists-equal-when-joined-with-spaces/" + a.Type
		}
		return "primary/" + a.Type + "/" + strings.Join(prim, "+")
	}
	return "tuning/" + a.Type + "/" + strings.Join(tun, "+")
}

func execC12(c c12Case) vkit.Result {
	var res vkit.Result
	seenSig := map[string]bool{}
	violate := func(sig, format string, args ...any) {
		if !seenSig[sig] {
			seenSig[sig] = true
			res.Violate(sig, format, args...)
		}
	}
	classes := map[string]bool{}
	class := func(s string) {
		if !classes[s] {
			classes[s] = true
			res.Class(s)
		}
	}

	texts := make([]string, len(c.Versions))
	for i, v := range c.Versions {
		texts[i] = v.yamlText()
		if err := fxValidateRules(texts[i]); err != nil {
			res.Violate("harness/invalid-rules", "version %d: %v\n%s", i, err, texts[i])
			return res
		}
	}
	W := c.Workers
	if W < 1 {
		W = 1
	}
	if c.Conc != nil {
		// one cache per concurrent worker plus one for a worker that arrives later
		W = min(max(c.Conc.Goroutines, 2), 16) + 1
	}
	sut, err := fxNewSUT(fxMainYAML, texts[0], W, 1)
	if err != nil {
		res.Violate("harness/load", "cannot load generated config: %v\n%s", err, texts[0])
		return res
	}
	defer sut.stop()

	cur, epoch := 0, 0
	var past []c12Obs
	ptrViolation := false
	modeSuffix := "" // "/concurrent-creation" in the concurrent sub-mode

	collect := func(step int) ([]c12Obs, bool) {
		var live []c12Obs
		ok := true
		for w := 0; w < W; w++ {
			dests := make([]string, 0, len(sut.caches[w]))
			for d := range sut.caches[w] {
				dests = append(dests, d)
			}
			sort.Strings(dests)
			for _, dest := range dests {
				sm := sut.caches[w][dest]
				exp := c12Expected(c.Versions[cur].resolve(dest))
				if sm == nil {
					violate("C12/create/nil-sampler", "step %d: worker %d dest %q: factory returned nil", step, w, dest)
					ok = false
					continue
				}
				refs := sample.VerifDynsamplers(sm)
				if len(refs) != len(exp) {
					violate("C12/structure/instance-count", "step %d: worker %d dest %q: %d rate-tracking instances behind the sampler, the rules file defines %d", step, w, dest, len(refs), len(exp))
					ok = false
					continue
				}
				for i, r := range refs {
					if r.Kind == "missing" || r.Dyn == nil {
						violate("C12/structure/downstream-missing", "step %d: worker %d dest %q %s: no downstream sampler registered", step, w, dest, r.Path)
						ok = false
						continue
					}
					if r.Path != exp[i].path || r.Kind != exp[i].def.Type {
						violate("C12/structure/wrong-sampler", "step %d: worker %d dest %q: got %s at %q, rules file has %s at %q", step, w, dest, r.Kind, r.Path, exp[i].def.Type, exp[i].path)
						ok = false
						continue
					}
					live = append(live, c12Obs{epoch: epoch, worker: w, dest: dest, path: r.Path, def: exp[i].def, ptr: r.Dyn, rule: exp[i].rule})
				}
			}
		}
		return live, ok
	}

	judge := func(step int, live []c12Obs) {
		for i := 0; i < len(live); i++ {
			for j := i + 1; j < len(live); j++ {
				a, b := live[i], live[j]
				same := a.ptr == b.ptr
				switch {
				case a.dest != b.dest:
					if same {
						ptrViolation = true
						violate(fmt.Sprintf("C12/cross-destination/shared/%s/%s", c12NameClass(a.dest, b.dest), a.def.Type),
							"step %d: destination %q %s (worker %d) and destination %q %s (worker %d) use the same %s instance; defs %s / %s",
							step, a.dest, a.path, a.worker, b.dest, b.path, b.worker, a.def.Type, a.def.canon(), b.def.canon())
					}
				case a.path == b.path:
					if a.worker != b.worker {
						res.NonTrivial = true
						class("two-workers-same-destination")
						if !same {
							ptrViolation = true
							violate("C12/workers/not-shared"+modeSuffix+"/"+a.def.Type,
								"step %d: workers %d and %d got different %s instances for destination %q %s (definition %s)",
								step, a.worker, b.worker, a.def.Type, a.dest, a.path, a.def.canon())
						}
					}
				default: // same destination, two rule positions
					if a.def.canon() == b.def.canon() {
						if same {
							class("identical-defs-in-two-rules/shared(allowed)")
						} else {
							class("identical-defs-in-two-rules/separate(allowed)")
						}
						continue
					}
					prim, tun := fxDiff(a.def, b.def)
					if len(prim)+len(tun) == 1 {
						res.NonTrivial = true
						class("one-parameter-difference-in-one-destination")
					}
					if len(prim) == 0 {
						class("tuning-only-difference")
					}
					if same {
						ptrViolation = true
						sig := "C12/same-destination/different-definitions-shared/" + c12DiffClass(a.def, b.def)
						if a.rule != "" && a.rule == b.rule {
							sig += "/rules-with-equal-names"
						}
						violate(sig,
							"step %d: destination %q: %s (%s) and %s (%s) are different definitions but use the same %s instance",
							step, a.dest, a.path, a.def.canon(), b.path, b.def.canon(), a.def.Type)
					}
				}
			}
		}
		// state must not survive a reload into a different definition or destination
		for _, p := range past {
			for _, l := range live {
				if p.epoch != l.epoch && p.dest == l.dest && p.path == l.path {
					if p.def.canon() == l.def.canon() {
						class("recreated-after-reload/unchanged-definition")
					} else {
						class("recreated-after-reload/changed-definition")
					}
				}
				if p.ptr != l.ptr || p.epoch == l.epoch {
					continue
				}
				switch {
				case p.dest != l.dest:
					ptrViolation = true
					violate("C12/reload/state-survives/other-destination", "step %d: %s instance of %q %s before the reload is used by %q %s after it", step, l.def.Type, p.dest, p.path, l.dest, l.path)
				case p.def.canon() != l.def.canon():
					ptrViolation = true
					violate("C12/reload/state-survives/changed-definition/"+c12DiffClass(p.def, l.def),
						"step %d: destination %q: instance created for %s (%s) before the reload is used for %s (%s) after it", step, l.dest, p.path, p.def.canon(), l.path, l.def.canon())
				default:
					class("reload/unchanged-definition-keeps-instance(allowed)")
				}
			}
		}
	}

	checkGauge := func(step int, live []c12Obs) {
		// hook-free cross-check: the unique_dynsampler_count gauge
		g, has := sut.gauge("unique_dynsampler_count")
		distinct := map[any]bool{}
		defsSeen := map[string]bool{}
		positions := map[string]bool{}
		for _, o := range live {
			distinct[o.ptr] = true
			defsSeen[o.dest+"\x00"+o.def.canon()] = true
			positions[o.dest+"\x00"+o.path] = true
		}
		if !has {
			violate("C12/gauge/absent", "step %d: unique_dynsampler_count never reported", step)
		} else {
			if int(g) != len(distinct) {
				violate("C12/gauge/differs-from-instances-observed", "step %d: unique_dynsampler_count=%v but %d distinct instances are in use", step, g, len(distinct))
			}
			if !ptrViolation && (int(g) < len(defsSeen) || int(g) > len(positions)) {
				violate("C12/gauge/outside-oracle-range", "step %d: unique_dynsampler_count=%v, the definitions in use need between %d and %d", step, g, len(defsSeen), len(positions))
			}
		}
	}

	if c.Conc != nil {
		modeSuffix = "/concurrent-creation"
		c12RunConcurrent(c, sut, &res, collect, judge, checkGauge, violate, class)
		return res
	}

	for step, op := range c.Ops {
		switch op.Op {
		case "get":
			w := op.Worker % W
			_, created := sut.get(w, op.Dest)
			if _, ok := c.Versions[cur].lookup(op.Dest); !ok {
				class("destination-falls-back-to-default")
			}
			live, ok := collect(step)
			if !ok {
				continue
			}
			judge(step, live)
			if created {
				checkGauge(step, live)
			}
		case "reload":
			to := op.To % len(c.Versions)
			changed := texts[to] != texts[cur]
			live, _ := collect(step)
			before := sut.reloads
			if err := sut.reload(texts[to]); err != nil {
				violate("harness/reload", "step %d: reload failed: %v", step, err)
				return res
			}
			got := sut.reloads - before
			if changed && got != 1 || !changed && got != 0 {
				violate("harness/reload-callbacks", "step %d: rules changed=%v but %d reload callbacks", step, changed, got)
				return res
			}
			cur = to
			if changed {
				past = append(past, live...)
				epoch++
				class("reload/changed")
			} else {
				class("reload/unchanged")
			}
		}
	}
	res.Class(fmt.Sprintf("workers=%d", W))
	return res
}

func TestC12(t *testing.T) {
	vkit.Run(t, vkit.Spec[c12Case]{
		ID:   "C12",
		Rule: "rapid-generated rules files (1-3 versions; destinations prod/staging/__default__/a look-alike name; top-level and rule-downstream samplers of all five dynsampler-backed types drawn from a small pool that differs in 0-2 tuning parameters (ordinary values, and values the validator accepts but the samplers normalise: negative and explicit-zero durations, negative MaxKeys/BurstMultiple/InitialSampleRate, SampleRate 0/-3), the rate, the field set or the type), rule names unique, all equal or absent; validated by refinery's rules validator and loaded through config.NewConfig from files; histories of lazy creation by 1-4 workers (the collector's per-worker cache logic) and real config reloads. After every step the identity of the dynsampler-go instance behind every cached sampler (verif hook) is compared pairwise. About 3 in 10 cases run the concurrent sub-mode instead: 2/4/8 workers released by one barrier create the samplers of 1-3 destinations at the same moment on a fresh factory, 30 (thorough 60) repetitions per case, most of them with a Metrics double that holds the first creator inside metrics registration until the others are done or stuck; the same pairwise identity oracle (plus a worker arriving later, plus the gauge) is applied after each repetition. Non-trivial: two workers hold a sampler for the same destination, or two definitions in one destination differ in exactly one parameter and both are instantiated. Distinct = distinct case JSON.",
		Assumptions: []string{
			"identity of the dynsampler-go instance == identity of the rate-tracking state (the Sampler wrappers only hold configuration and the key builder)",
			"the per-worker cache in the harness mirrors collect.CollectorWorker.datasetSamplers; reload = ClearDynsamplers then every worker clears its cache (collect.reloadConfigs), executed atomically",
			"definitions whose FieldList differs only in order are treated as identical (refinery documents and pins this); a duration written as 0s is the same configuration as an unset one; a negative value is a different configuration from an unset one even where the sampler treats both alike",
			"identical definitions in two rules of one destination may or may not share state (statement allows both)",
			"rules files are validated by config.Metadata.ValidateRules and then loaded with --no-validate (the loader would re-parse its metadata on every load)",
			"concurrent sub-mode: verdicts come from observed instance identity only; which interleavings occur is up to the scheduler (measured: conc_* counters and conc/ classes) except for the one the gate forces (another worker runs while the first creator is inside metrics registration)",
		},
		Gen:   genC12,
		Exec:  execC12,
		Extra: c12ConcExtra,
	})
}
