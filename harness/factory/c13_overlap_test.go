package factory

// C13 overlap step: a peer.Peers double whose GetPeers can be held by the
// harness right after it has taken its snapshot of the membership, so that the
// histories "a notification (or a sampler creation) has read the membership and
// is held; the membership changes again; the next notification runs; the held
// one continues" are generated. Verdicts come from the goals observed after
// everything has finished, never from timing; all waits end in goroutine joins
// (the one wait that cannot - "has the second notification finished or is it
// blocked?" - is a bounded number of scheduler yields, after which the held
// call is released either way).

import (
	"runtime"
	"sync"
	"sync/atomic"

	"github.com/honeycombio/refinery/internal/peer"
)

var _ peer.Peers = (*c13GatePeers)(nil)

type c13GatePeers struct {
	mu        sync.Mutex
	peers     []string
	callbacks []func()

	armed   atomic.Bool
	entered chan struct{} // closed when a GetPeers call is being held
	release chan struct{} // closed by the harness to let it continue
}

func newC13GatePeers(n int) *c13GatePeers { return &c13GatePeers{peers: fxPeerList(n)} }

func (p *c13GatePeers) GetPeers() ([]string, error) {
	p.mu.Lock()
	snapshot := p.peers
	p.mu.Unlock()
	if p.armed.CompareAndSwap(true, false) {
		close(p.entered)
		<-p.release
	}
	return snapshot, nil
}
func (p *c13GatePeers) GetInstanceID() (string, error) { return "http://peer-0:8081", nil }
func (p *c13GatePeers) RegisterUpdatedPeersCallback(cb func()) {
	p.mu.Lock()
	p.callbacks = append(p.callbacks, cb)
	p.mu.Unlock()
}
func (p *c13GatePeers) Ready() error { return nil }
func (p *c13GatePeers) Start() error { return nil }

func (p *c13GatePeers) set(n int) {
	p.mu.Lock()
	p.peers = fxPeerList(n)
	p.mu.Unlock()
}

// notify runs the registered callbacks, like peer.MockPeers.UpdatePeers and the
// real peer implementations do after a membership change.
func (p *c13GatePeers) notify() {
	p.mu.Lock()
	cbs := append([]func(){}, p.callbacks...)
	p.mu.Unlock()
	for _, cb := range cbs {
		cb()
	}
}

// update = change + notification, sequentially.
func (p *c13GatePeers) update(n int) {
	p.set(n)
	p.notify()
}

const c13YieldBudget = 400

// run-wide counters for the evidence
var (
	c13OverlapTotal     atomic.Int64 // overlap steps executed
	c13OverlapHeld      atomic.Int64 // ... in which call A was actually held after its snapshot
	c13OverlapBFinished atomic.Int64 // ... and notification B ran to completion while A was held
	c13OverlapBBlocked  atomic.Int64 // ... and notification B could not finish until A was released
)

func c13OverlapExtra() map[string]any {
	return map[string]any{
		"overlap_steps_total":                   c13OverlapTotal.Load(),
		"overlap_steps_first_call_held":         c13OverlapHeld.Load(),
		"overlap_second_finished_while_held":    c13OverlapBFinished.Load(),
		"overlap_second_blocked_until_released": c13OverlapBBlocked.Load(),
	}
}

// overlap executes: membership := n1; call A (a notification, or callA if not
// nil - a sampler creation) starts and is held right after it has read the
// membership; membership := n2; notification B runs; A is released once B has
// finished or cannot get on; both are joined. It reports what happened.
func (p *c13GatePeers) overlap(n1, n2 int, callA func()) (held, bFinishedWhileHeld bool) {
	c13OverlapTotal.Add(1)
	p.set(n1)
	p.entered = make(chan struct{})
	p.release = make(chan struct{})
	p.armed.Store(true)
	aDone := make(chan struct{})
	go func() {
		defer close(aDone)
		if callA != nil {
			callA()
		} else {
			p.notify()
		}
	}()
	select {
	case <-p.entered:
		held = true
	case <-aDone:
		// A never asked for the membership (e.g. a cache hit): nothing to hold
	}
	p.armed.Store(false)
	p.set(n2)
	bDone := make(chan struct{})
	go func() {
		defer close(bDone)
		p.notify()
	}()
	if held {
		c13OverlapHeld.Add(1)
		for i := 0; i < c13YieldBudget && !bFinishedWhileHeld; i++ {
			select {
			case <-bDone:
				bFinishedWhileHeld = true
			default:
				runtime.Gosched()
			}
		}
		if bFinishedWhileHeld {
			c13OverlapBFinished.Add(1)
		} else {
			c13OverlapBBlocked.Add(1)
		}
		close(p.release)
	}
	<-aDone
	<-bDone
	return held, bFinishedWhileHeld
}
