package transmitx

import (
	"context"
	"encoding/binary"
	"encoding/json"
	"fmt"
	"io"
	"math"
	"net/http"
	"net/url"
	"os"
	"sort"
	"strings"
	"sync"
	"testing"
	"testing/synctest"
	"time"

	"github.com/honeycombio/refinery/config"
	"github.com/honeycombio/refinery/logger"
	"github.com/honeycombio/refinery/transmit"
	"github.com/honeycombio/refinery/types"
	"github.com/honeycombio/refinery/verifharness/vkit"
	"github.com/vmihailenco/msgpack/v5"
	"pgregory.net/rapid"
)

// C26: transmission delivers each event once to its own destination within limits.
//
// SUT: the real transmit.DirectTransmission (real clock, real net/http client)
// inside a testing/synctest bubble, talking over an in-memory net.Pipe network
// to 1-3 scripted HTTP servers. All time is virtual, so the 1.25 x BatchTimeout
// bound, Retry-After sleeps of up to a minute and client time-outs are exact
// and cost no wall-clock time. The oracle only uses what the servers received
// (decoded by an independent msgpack decoder), the case itself and the
// queued-items updown metric.

const (
	c26MaxEvent = 1_000_000
	c26MaxBody  = 5_000_000
	// refinery's own serialisation of an event may be a few bytes longer than the
	// canonical (minimal) msgpack encoding the oracle computes (map16 headers,
	// 12-byte timestamps, meta.refinery.root, wider ints). Within this band the
	// drop decision is a don't-care.
	c26SizeSlack = 64
)

type c26Resp struct {
	Kind string `json:"kind"`           // ok | okmsgp | short | garbage | empty | status | timeout | slow | hangup
	Code int    `json:"code,omitempty"` // status: HTTP status code
	RA   string `json:"ra,omitempty"`   // status: Retry-After value; "@N" = HTTP date N seconds ahead
	Body string `json:"body,omitempty"` // status: json | msgpack | garbage | "" (none)
	N    int    `json:"n,omitempty"`    // short: number of missing responses; slow: delay in % of the send timeout
}

type c26Op struct {
	Op string `json:"op"` // enq | adv
	// enq: the event (its id is the index of the op)
	Srv    int      `json:"srv,omitempty"`  // destination server; == Servers means a host nobody listens on
	Form   int      `json:"form,omitempty"` // 0 http://h  1 http://h/  2 http://h/px  3 http://h/px/
	Key    int      `json:"key,omitempty"`
	DS     int      `json:"ds,omitempty"`
	Size   int      `json:"size,omitempty"` // target canonical serialised size in bytes (0 = no padding)
	Raw    bool     `json:"raw,omitempty"`  // payload held as serialised msgpack (as the router produces) instead of a map
	Extra  int      `json:"extra,omitempty"`
	TS     int      `json:"ts,omitempty"`
	Rate   int      `json:"rate,omitempty"`
	Status int      `json:"status,omitempty"` // per-event status inside a 200 answer (0 = 202)
	A1     *c26Resp `json:"a1,omitempty"`     // answer when this event heads a request, first attempt (nil = ok)
	A2     *c26Resp `json:"a2,omitempty"`     // ... later attempts
	// adv: virtual time passes. Aim "" = D ns; "tick" = to the next multiple of BatchTimeout/4 since start, plus K quarters, plus D ns
	Aim string `json:"aim,omitempty"`
	K   int    `json:"k,omitempty"`
	D   int64  `json:"d,omitempty"`
}

type c26Case struct {
	Servers       int     `json:"servers"`
	Peer          bool    `json:"peer,omitempty"` // TransmitTypePeer instead of upstream (metric names only)
	MaxBatch      int     `json:"max_batch"`
	BatchTimeout  int64   `json:"batch_timeout"` // ns
	SendTimeout   int64   `json:"send_timeout"`  // ns
	Compress      bool    `json:"compress,omitempty"`
	ExtraHeaders  bool    `json:"extra_headers,omitempty"`
	Ops           []c26Op `json:"ops"`
	StopAfterLast int64   `json:"stop_after_last,omitempty"` // ns between the last op and Stop
	// Conc, when set, selects the concurrent-enqueue shape (c26_concurrent_test.go); the fields above are unused then.
	Conc *c26Conc `json:"conc,omitempty"`
}

var c26Keys = []string{"k1", "k2", "0123456789abcdef0123456789abcdef"}
// the last two are dot segments: a client can address them (POST /1/events/%2E%2E) and refinery accepts them
var c26Datasets = []string{"ds", "d two", "a/b", "ünï", "50%", "q?x=1#f", "..", "."}

const c26PlainDatasets = 6

func c26DotDataset(ds string) bool { return ds == "." || ds == ".." }

// c26Dataset maps a case's dataset number to a name; numbers from 100 up are
// "filler" datasets (as many distinct destinations as a case needs).
func c26Dataset(n int) string {
	if n >= 100 {
		return fmt.Sprintf("fill-%d", n)
	}
	if n < 0 {
		n = -n
	}
	return c26Datasets[n%len(c26Datasets)]
}

// c26PoolSize is refinery's (unexported) limit of concurrently sent batches;
// only used to aim the "saturated sender pool" shape and to excuse timing.
const c26PoolSize = 500
var c26Times = []time.Time{
	time.Unix(1_700_000_000, 0).UTC(),
	time.Unix(1_700_000_000, 123_456_789).UTC(),
	{},
	time.Unix(1<<35, 5).UTC(),
}
var c26Rates = []uint{0, 1, 2, 100, 1 << 40}

func c26HostURL(srv, form int) string {
	h := fmt.Sprintf("http://srv%d.test", srv)
	switch form {
	case 1:
		return h + "/"
	case 2:
		return h + "/px"
	case 3:
		return h + "/px/"
	}
	return h
}

// ---------------------------------------------------------------- generator

func genC26Resp(t *rapid.T, label string) *c26Resp {
	k := rapid.IntRange(0, 19).Draw(t, label+"kind")
	switch {
	case k <= 3:
		return nil // ok
	case k == 4:
		return &c26Resp{Kind: "okmsgp"}
	case k == 5:
		return &c26Resp{Kind: "short", N: rapid.IntRange(1, 3).Draw(t, label+"missing")}
	case k == 6:
		return &c26Resp{Kind: rapid.SampledFrom([]string{"garbage", "empty"}).Draw(t, label+"bad")}
	case k <= 11:
		code := rapid.SampledFrom([]int{429, 503}).Draw(t, label+"code")
		ra := rapid.SampledFrom([]string{"", "0.05", "1", "2", "59", "59.999", "60", "61", "3600", "0", "-5", "soon", "@30", "@59", "@90", "@-10"}).Draw(t, label+"ra")
		return &c26Resp{Kind: "status", Code: code, RA: ra, Body: rapid.SampledFrom([]string{"", "json", "msgpack", "garbage"}).Draw(t, label+"body")}
	case k <= 13:
		code := rapid.SampledFrom([]int{400, 401, 403, 404, 413, 500, 502, 504, 201, 204}).Draw(t, label+"code")
		return &c26Resp{Kind: "status", Code: code, RA: rapid.SampledFrom([]string{"", "1"}).Draw(t, label+"ra"),
			Body: rapid.SampledFrom([]string{"", "json", "msgpack", "garbage"}).Draw(t, label+"body")}
	case k <= 16:
		return &c26Resp{Kind: "timeout"}
	case k <= 18:
		return &c26Resp{Kind: "slow", N: rapid.SampledFrom([]int{10, 50, 99}).Draw(t, label+"pct")}
	default:
		return &c26Resp{Kind: "hangup"}
	}
}

func genC26(t *rapid.T) c26Case {
	c := c26Case{}
	if rapid.IntRange(0, 7).Draw(t, "concurrent") == 3 {
		c.Conc = genC26Conc(t)
		return c
	}
	if rapid.IntRange(0, 49).Draw(t, "saturate") == 23 {
		return genC26Saturated(t)
	}
	big := rapid.IntRange(0, 9).Draw(t, "big") == 0 // cases about the 1 MB / 5 MB limits
	calm := rapid.IntRange(0, 3).Draw(t, "calm") == 0 // no scripted faults: every request is judged for timing
	c.Servers = rapid.IntRange(1, 3).Draw(t, "servers")
	c.Peer = rapid.Bool().Draw(t, "peer")
	c.MaxBatch = rapid.SampledFrom([]int{1, 2, 5, 50}).Draw(t, "maxbatch")
	c.BatchTimeout = int64(rapid.SampledFrom([]time.Duration{20 * time.Millisecond, 100 * time.Millisecond, time.Second}).Draw(t, "bt"))
	c.SendTimeout = int64(rapid.SampledFrom([]time.Duration{50 * time.Millisecond, 500 * time.Millisecond, 10 * time.Second}).Draw(t, "st"))
	c.Compress = rapid.Bool().Draw(t, "compress")
	c.ExtraHeaders = rapid.IntRange(0, 3).Draw(t, "hdrs") == 0
	nKeys, nDS, maxOps := 3, c26PlainDatasets, 40
	forms := []int{0, 0, 0, 1, 2, 3}
	if big {
		c.Servers = 1
		c.MaxBatch = rapid.SampledFrom([]int{5, 50, 50}).Draw(t, "bigmaxbatch")
		nKeys, nDS, maxOps = 1, rapid.SampledFrom([]int{1, 1, 2}).Draw(t, "bigds"), 16
		forms = []int{0, 0, 0, 0, 0, 2}
	}
	if vkit.Thorough() && !big {
		maxOps = 120
	}
	q := c.BatchTimeout / 4
	opGen := rapid.Custom(func(t *rapid.T) c26Op {
		kind := rapid.IntRange(0, 19).Draw(t, "opkind")
		advLimit := 13
		if big {
			advLimit = 18
		}
		if kind > advLimit {
			a := rapid.IntRange(0, 5).Draw(t, "advkind")
			switch {
			case a <= 2:
				return c26Op{Op: "adv", Aim: "tick", K: rapid.SampledFrom([]int{0, 0, 1, 3, 4}).Draw(t, "k"), D: rapid.SampledFrom([]int64{-1, 0, 0, 1}).Draw(t, "delta")}
			case a <= 4:
				return c26Op{Op: "adv", D: rapid.SampledFrom([]int64{1, q / 2, q, 2 * q, 4*q - 1, 4 * q, 5 * q, 5*q + 1, 8 * q}).Draw(t, "d")}
			default:
				return c26Op{Op: "adv", D: rapid.Int64Range(0, 10*q).Draw(t, "d")}
			}
		}
		op := c26Op{Op: "enq"}
		op.Srv = rapid.IntRange(0, c.Servers-1).Draw(t, "srv")
		if rapid.IntRange(0, 149).Draw(t, "dead") == 61 {
			op.Srv = c.Servers
		}
		op.Form = rapid.SampledFrom(forms).Draw(t, "form")
		op.Key = rapid.IntRange(0, nKeys-1).Draw(t, "key")
		op.DS = rapid.IntRange(0, nDS-1).Draw(t, "ds")
		if !big && rapid.IntRange(0, 99).Draw(t, "dotds") == 37 {
			op.DS = c26PlainDatasets + rapid.IntRange(0, 1).Draw(t, "dot")
		}
		op.Raw = rapid.Bool().Draw(t, "raw")
		op.Extra = rapid.IntRange(0, 1).Draw(t, "extra")
		op.TS = rapid.IntRange(0, len(c26Times)-1).Draw(t, "ts")
		op.Rate = rapid.IntRange(0, len(c26Rates)-1).Draw(t, "rate")
		s := rapid.IntRange(0, 99).Draw(t, "sizeclass")
		if big {
			switch {
			case s < 8:
				op.Size = 0
			case s < 15:
				op.Size = 100_000
			case s < 60:
				op.Size = 833_400 // six of these exceed 5 MB
			case s < 80:
				op.Size = c26MaxEvent + rapid.IntRange(-90, 30).Draw(t, "delta")
			case s < 90:
				op.Size = 999_000
			default:
				op.Size = rapid.SampledFrom([]int{1_000_200, 1_500_000, 5_100_000}).Draw(t, "over")
			}
		} else {
			switch {
			case s < 85:
				op.Size = 0
			case s < 95:
				op.Size = rapid.SampledFrom([]int{300, 1000, 70_000}).Draw(t, "small")
			case s < 98:
				op.Size = 100_000
			case s < 99:
				op.Size = c26MaxEvent + rapid.IntRange(-90, 30).Draw(t, "delta")
			default:
				op.Size = 1_000_200
			}
		}
		if !calm {
			if rapid.IntRange(0, 7).Draw(t, "evstatus") == 0 {
				op.Status = rapid.SampledFrom([]int{400, 429, 500, 200}).Draw(t, "status")
			}
			if rapid.IntRange(0, 2).Draw(t, "faulty") == 0 {
				op.A1 = genC26Resp(t, "a1")
				if op.A1 != nil {
					op.A2 = genC26Resp(t, "a2")
				}
			}
		}
		return op
	})
	minOps := 1
	if big {
		minOps = 6
	}
	if rapid.IntRange(0, 11).Draw(t, "split") == 5 {
		// aimed shape: one destination, 8-12 events of 300-900 kB dispatched together (so the
		// batch is split by the 5 MB limit into several sequential requests) and transport-level
		// failures (hang-up, time-out on both attempts) scripted on whichever event heads a request.
		c.Servers, c.MaxBatch = 1, 50
		c.SendTimeout = int64(50 * time.Millisecond)
		splitGen := rapid.Custom(func(t *rapid.T) c26Op {
			op := c26Op{Op: "enq"}
			op.Size = rapid.SampledFrom([]int{300_000, 500_000, 700_000, 700_000, 833_400, 900_000}).Draw(t, "splitsize")
			op.Raw = rapid.Bool().Draw(t, "raw")
			op.TS = rapid.IntRange(0, len(c26Times)-1).Draw(t, "ts")
			op.Rate = rapid.IntRange(0, len(c26Rates)-1).Draw(t, "rate")
			if rapid.Bool().Draw(t, "faulty") {
				switch k := rapid.IntRange(0, 9).Draw(t, "splitfault"); {
				case k <= 3:
					op.A1 = &c26Resp{Kind: "hangup"}
				case k <= 6:
					op.A1, op.A2 = &c26Resp{Kind: "timeout"}, &c26Resp{Kind: "timeout"}
				case k == 7:
					op.A1 = &c26Resp{Kind: "timeout"}
				case k == 8:
					op.A1 = &c26Resp{Kind: "status", Code: 500}
				default:
					op.A1, op.A2 = &c26Resp{Kind: "status", Code: 429, RA: "1"}, &c26Resp{Kind: "hangup"}
				}
			}
			return op
		})
		c.Ops = rapid.SliceOfN(splitGen, 8, 12).Draw(t, "splitops")
		c.StopAfterLast = rapid.SampledFrom([]int64{0, 0, 6 * q}).Draw(t, "stopafter")
		return c
	}
	c.Ops = rapid.SliceOfN(opGen, minOps, maxOps).Draw(t, "ops")
	c.StopAfterLast = rapid.SampledFrom([]int64{0, 0, 1, q, 4 * q, 6 * q}).Draw(t, "stopafter")
	if !big && rapid.IntRange(0, 5).Draw(t, "stopfault") == 4 {
		// aimed: events still pending when Stop is called whose shutdown-flush request is
		// answered 429/503 with a usable Retry-After (and 200 on the retry)
		n := rapid.IntRange(1, 3).Draw(t, "nstopfault")
		for i := 0; i < n; i++ {
			c.Ops = append(c.Ops, c26Op{Op: "enq",
				Srv: rapid.IntRange(0, c.Servers-1).Draw(t, "sfsrv"), Key: rapid.IntRange(0, 1).Draw(t, "sfkey"), DS: rapid.IntRange(0, 2).Draw(t, "sfds"),
				A1: &c26Resp{Kind: "status", Code: rapid.SampledFrom([]int{429, 503}).Draw(t, "sfcode"),
					RA: rapid.SampledFrom([]string{"1", "2", "30", "59", "@30", "@59"}).Draw(t, "sfra")}})
		}
		c.StopAfterLast = rapid.SampledFrom([]int64{0, 0, 1, q}).Draw(t, "sfstopafter")
	}
	return c
}

// genC26Saturated: aimed shape "saturated sender pool". As many single-event
// destinations as refinery sends batches concurrently are flushed by age and
// answered 429 + Retry-After, so every sender is parked in its Retry-After
// sleep; then events for a few victim destinations are enqueued around further
// age-based flushes, which now have to wait for a free sender. Everything is
// virtual time; the usual accounting applies (timing is excused, see c26Judge).
func genC26Saturated(t *rapid.T) c26Case {
	c := c26Case{Servers: 1, BatchTimeout: int64(100 * time.Millisecond), SendTimeout: int64(10 * time.Second)}
	c.MaxBatch = rapid.SampledFrom([]int{2, 5, 50}).Draw(t, "satmaxbatch")
	c.Compress = rapid.Bool().Draw(t, "satcompress")
	fill := rapid.SampledFrom([]int{c26PoolSize, c26PoolSize, c26PoolSize, c26PoolSize - 1, c26PoolSize + 3}).Draw(t, "fill")
	ra := rapid.SampledFrom([]string{"59", "30", "5"}).Draw(t, "satra")
	q := c.BatchTimeout / 4
	for i := 0; i < fill; i++ {
		c.Ops = append(c.Ops, c26Op{Op: "enq", DS: 100 + i, A1: &c26Resp{Kind: "status", Code: 429, RA: ra}})
	}
	c.Ops = append(c.Ops, c26Op{Op: "adv", D: 6 * q}) // all fillers are flushed by age and parked
	victimGen := rapid.Custom(func(t *rapid.T) c26Op {
		switch k := rapid.IntRange(0, 9).Draw(t, "vkind"); {
		case k <= 5:
			return c26Op{Op: "enq", DS: rapid.SampledFrom([]int{0, 0, 0, 1}).Draw(t, "vds"), Raw: rapid.Bool().Draw(t, "raw")}
		case k <= 8:
			return c26Op{Op: "adv", D: rapid.SampledFrom([]int64{5 * q, 6 * q, 6 * q, 9 * q}).Draw(t, "vadv")}
		default:
			return c26Op{Op: "adv", D: rapid.SampledFrom([]int64{1, q}).Draw(t, "vadvshort")}
		}
	})
	// always start with: A, age flush (blocked on the pool), B
	c.Ops = append(c.Ops, c26Op{Op: "enq"}, c26Op{Op: "adv", D: 6 * q}, c26Op{Op: "enq"})
	c.Ops = append(c.Ops, rapid.SliceOfN(victimGen, 0, 8).Draw(t, "victimops")...)
	c.StopAfterLast = rapid.SampledFrom([]int64{0, q, 6 * q}).Draw(t, "stopafter")
	return c
}

// ---------------------------------------------------------------- canonical msgpack (oracle side)

// c26Enc is a minimal msgpack encoder written from the msgpack specification
// (shortest form for every value). It produces the raw payloads handed to
// refinery and the oracle's lower bound of an event's serialised size.
type c26Enc struct{ b []byte }

func (e *c26Enc) mapHeader(n int) {
	switch {
	case n < 16:
		e.b = append(e.b, 0x80|byte(n))
	case n < 65536:
		e.b = append(e.b, 0xde, byte(n>>8), byte(n))
	default:
		e.b = append(e.b, 0xdf, byte(n>>24), byte(n>>16), byte(n>>8), byte(n))
	}
}
func (e *c26Enc) str(s string) {
	n := len(s)
	switch {
	case n < 32:
		e.b = append(e.b, 0xa0|byte(n))
	case n < 256:
		e.b = append(e.b, 0xd9, byte(n))
	case n < 65536:
		e.b = append(e.b, 0xda, byte(n>>8), byte(n))
	default:
		e.b = append(e.b, 0xdb, byte(n>>24), byte(n>>16), byte(n>>8), byte(n))
	}
	e.b = append(e.b, s...)
}
func (e *c26Enc) uint(v uint64) {
	switch {
	case v < 128:
		e.b = append(e.b, byte(v))
	case v < 1<<8:
		e.b = append(e.b, 0xcc, byte(v))
	case v < 1<<16:
		e.b = append(e.b, 0xcd, byte(v>>8), byte(v))
	case v < 1<<32:
		e.b = append(e.b, 0xce, byte(v>>24), byte(v>>16), byte(v>>8), byte(v))
	default:
		e.b = append(e.b, 0xcf)
		e.b = binary.BigEndian.AppendUint64(e.b, v)
	}
}
func (e *c26Enc) f64(v float64) {
	e.b = append(e.b, 0xcb)
	e.b = binary.BigEndian.AppendUint64(e.b, math.Float64bits(v))
}
func (e *c26Enc) bool(v bool) {
	if v {
		e.b = append(e.b, 0xc3)
	} else {
		e.b = append(e.b, 0xc2)
	}
}
func (e *c26Enc) time(t time.Time) {
	sec, ns := t.Unix(), int64(t.Nanosecond())
	switch {
	case sec >= 0 && sec < 1<<32 && ns == 0:
		e.b = append(e.b, 0xd6, 0xff)
		e.b = binary.BigEndian.AppendUint32(e.b, uint32(sec))
	case sec >= 0 && sec < 1<<34:
		e.b = append(e.b, 0xd7, 0xff)
		e.b = binary.BigEndian.AppendUint64(e.b, uint64(ns)<<34|uint64(sec))
	default:
		e.b = append(e.b, 0xc7, 12, 0xff)
		e.b = binary.BigEndian.AppendUint32(e.b, uint32(ns))
		e.b = binary.BigEndian.AppendUint64(e.b, uint64(sec))
	}
}

// c26Fields is the ordered field list of an event's data.
type c26Field struct {
	K string
	V any // uint64 | float64 | bool | string
}

func (e *c26Enc) fields(fs []c26Field) {
	e.mapHeader(len(fs))
	for _, f := range fs {
		e.str(f.K)
		switch v := f.V.(type) {
		case uint64:
			e.uint(v)
		case float64:
			e.f64(v)
		case bool:
			e.bool(v)
		case string:
			e.str(v)
		default:
			panic("c26Enc: unsupported value")
		}
	}
}

// c26EventFields returns the data fields for the enq op with the given id;
// padLen < 0 omits the padding field.
func c26EventFields(id int, op c26Op, padLen int) []c26Field {
	fs := []c26Field{{"id", uint64(id)}}
	if op.Extra == 1 {
		fs = append(fs, c26Field{"f", 1.5}, c26Field{"b", true}, c26Field{"s", "v"})
	}
	if padLen >= 0 {
		fs = append(fs, c26Field{"pad", strings.Repeat("x", padLen)})
	}
	return fs
}

// c26CanonSize is the length of the shortest msgpack encoding of
// {"time":..,"samplerate":..,"data":{fields}}.
func c26CanonSize(ts time.Time, rate uint, fs []c26Field) int {
	var e c26Enc
	e.mapHeader(3)
	e.str("time")
	e.time(ts)
	e.str("samplerate")
	e.uint(uint64(rate))
	e.str("data")
	e.fields(fs)
	return len(e.b)
}

// c26Build resolves the padding so that the canonical size hits op.Size.
func c26Build(id int, op c26Op) (fs []c26Field, canon int) {
	ts, rate := c26Times[op.TS%len(c26Times)], c26Rates[op.Rate%len(c26Rates)]
	base := c26CanonSize(ts, rate, c26EventFields(id, op, -1))
	if op.Size <= base {
		fs = c26EventFields(id, op, -1)
		return fs, base
	}
	// padding adds: key "pad" (4) + str header (1/2/3/5) + n
	want := op.Size - base - 4
	n := want
	for _, hdr := range []int{1, 2, 3, 5} {
		cand := want - hdr
		if cand < 0 {
			continue
		}
		var ok bool
		switch hdr {
		case 1:
			ok = cand < 32
		case 2:
			ok = cand >= 32 && cand < 256
		case 3:
			ok = cand >= 256 && cand < 65536
		case 5:
			ok = cand >= 65536
		}
		if ok {
			n = cand
			break
		}
	}
	if n < 0 {
		n = 0
	}
	fs = c26EventFields(id, op, n)
	return fs, c26CanonSize(ts, rate, fs)
}

// ---------------------------------------------------------------- scripted servers

type c26Req struct {
	Seq       int
	Srv       int
	Path      string // escaped path as received
	Key       string
	CT, CE    string
	WireLen   int
	PlainLen  int
	IDs       []int
	EvLens    []int
	DecodeErr string
	At        time.Duration // virtual time since Start
	Attempt   int
	Resp      c26Resp
}

type c26Log struct {
	mu       sync.Mutex
	t0       time.Time
	reqs     []c26Req
	attempts map[string]int
}

type c26Server struct {
	idx  int
	c    *c26Case
	log  *c26Log
	stop chan struct{}
}

func (s *c26Server) ServeHTTP(w http.ResponseWriter, r *http.Request) {
	body, rerr := io.ReadAll(r.Body)
	rec := c26Req{Srv: s.idx, Path: r.URL.EscapedPath(), Key: r.Header.Get("X-Honeycomb-Team"),
		CT: r.Header.Get("Content-Type"), CE: r.Header.Get("Content-Encoding"), WireLen: len(body)}
	if rerr != nil {
		rec.DecodeErr = "reading body: " + rerr.Error()
	} else {
		plain, evs, err := txDecodeBatch(rec.CE, body)
		rec.PlainLen = len(plain)
		if err != nil {
			rec.DecodeErr = err.Error()
		}
		for _, ev := range evs {
			id := -1
			if v, ok := txToInt(ev.Data["id"]); ok {
				id = int(v)
			}
			rec.IDs = append(rec.IDs, id)
			rec.EvLens = append(rec.EvLens, ev.WireLen)
		}
	}
	var a1, a2 *c26Resp
	if len(rec.IDs) > 0 && rec.IDs[0] >= 0 && rec.IDs[0] < len(s.c.Ops) {
		a1, a2 = s.c.Ops[rec.IDs[0]].A1, s.c.Ops[rec.IDs[0]].A2
	}
	gk := fmt.Sprintf("%d|%s|%s|%v", rec.Srv, rec.Path, rec.Key, rec.IDs)
	s.log.mu.Lock()
	rec.At = time.Since(s.log.t0)
	s.log.attempts[gk]++
	rec.Attempt = s.log.attempts[gk]
	resp := c26Resp{Kind: "ok"}
	if rec.DecodeErr != "" {
		resp = c26Resp{Kind: "status", Code: 400}
	} else if rec.Attempt == 1 && a1 != nil {
		resp = *a1
	} else if rec.Attempt > 1 && a2 != nil {
		resp = *a2
	}
	rec.Resp = resp
	rec.Seq = len(s.log.reqs)
	s.log.reqs = append(s.log.reqs, rec)
	s.log.mu.Unlock()

	sleep := func(d time.Duration) {
		tm := time.NewTimer(d)
		defer tm.Stop()
		select {
		case <-tm.C:
		case <-r.Context().Done():
		case <-s.stop:
		}
	}
	statuses := func(missing int) []map[string]any {
		out := []map[string]any{}
		for i, id := range rec.IDs {
			if i >= len(rec.IDs)-missing {
				break
			}
			st := 202
			if id >= 0 && id < len(s.c.Ops) && s.c.Ops[id].Status != 0 {
				st = s.c.Ops[id].Status
			}
			out = append(out, map[string]any{"status": st})
		}
		return out
	}
	switch resp.Kind {
	case "timeout":
		sleep(time.Duration(s.c.SendTimeout) + 10*time.Millisecond)
		w.WriteHeader(200)
		w.Write([]byte("[]"))
	case "hangup":
		if hj, ok := w.(http.Hijacker); ok {
			if conn, _, err := hj.Hijack(); err == nil {
				conn.Close()
				return
			}
		}
		panic(http.ErrAbortHandler)
	case "garbage":
		w.Header().Set("Content-Type", "application/json")
		w.WriteHeader(200)
		w.Write([]byte(`{"not":"an array"`))
	case "empty":
		w.WriteHeader(200)
	case "okmsgp":
		b, _ := msgpack.Marshal(statuses(0))
		w.Header().Set("Content-Type", "application/msgpack")
		w.WriteHeader(200)
		w.Write(b)
	case "status":
		if resp.RA != "" {
			ra := resp.RA
			if strings.HasPrefix(ra, "@") {
				var secs int
				fmt.Sscanf(ra[1:], "%d", &secs)
				ra = time.Now().Add(time.Duration(secs) * time.Second).UTC().Format(http.TimeFormat)
			}
			w.Header().Set("Retry-After", ra)
		}
		switch resp.Body {
		case "json":
			w.Header().Set("Content-Type", "application/json")
			w.WriteHeader(resp.Code)
			w.Write([]byte(`{"error":"scripted"}`))
		case "msgpack":
			b, _ := msgpack.Marshal(map[string]any{"error": "scripted"})
			w.Header().Set("Content-Type", "application/msgpack")
			w.WriteHeader(resp.Code)
			w.Write(b)
		case "garbage":
			w.Header().Set("Content-Type", "application/msgpack")
			w.WriteHeader(resp.Code)
			w.Write([]byte{0xc1, 0xc1})
		default:
			w.WriteHeader(resp.Code)
		}
	default: // ok | short | slow
		if resp.Kind == "slow" {
			sleep(time.Duration(s.c.SendTimeout) * time.Duration(resp.N) / 100)
		}
		missing := 0
		if resp.Kind == "short" {
			missing = resp.N
		}
		b, _ := json.Marshal(statuses(missing))
		w.Header().Set("Content-Type", "application/json")
		w.WriteHeader(200)
		w.Write(b)
	}
}

// ---------------------------------------------------------------- execution

type c26Obs struct {
	reqs        []c26Req
	enqAt       map[int]time.Duration // op index -> virtual enqueue time
	stopCalled  time.Duration
	stopReturn  time.Duration
	nReqAtStop  int
	queued      int64
	ups, downs  int64
	respErrors  int64
	sendRetries int64
}

var c26T *testing.T
var c26WarmOnce sync.Once

type c26Prepared struct {
	ev    *types.Event
	canon int
}

func c26Prepare(c c26Case) map[int]c26Prepared {
	out := map[int]c26Prepared{}
	for i, op := range c.Ops {
		if op.Op != "enq" {
			continue
		}
		fs, canon := c26Build(i, op)
		var payload types.Payload
		if op.Raw {
			var e c26Enc
			e.fields(fs)
			if err := payload.UnmarshalMsgpack(e.b); err != nil {
				panic("c26: raw payload rejected: " + err.Error())
			}
		} else {
			m := map[string]any{}
			for _, f := range fs {
				if u, ok := f.V.(uint64); ok {
					m[f.K] = int64(u)
				} else {
					m[f.K] = f.V
				}
			}
			payload = types.NewPayload(&config.MockConfig{}, m)
			payload.ExtractMetadata()
		}
		out[i] = c26Prepared{canon: canon, ev: &types.Event{
			Context:     context.Background(),
			APIHost:     c26HostURL(op.Srv, op.Form),
			APIKey:      c26Keys[op.Key%len(c26Keys)],
			Dataset:     c26Dataset(op.DS),
			Environment: "env",
			SampleRate:  c26Rates[op.Rate%len(c26Rates)],
			Timestamp:   c26Times[op.TS%len(c26Times)],
			Data:        payload,
		}}
	}
	return out
}

// c26Run drives one case. inBubble selects virtual time (synctest.Wait barriers).
func c26Run(c c26Case, prep map[int]c26Prepared, inBubble bool) c26Obs {
	wait := func() {
		if inBubble {
			synctest.Wait()
		}
	}
	pn := txNewPipeNet()
	log := &c26Log{attempts: map[string]int{}}
	var servers []*http.Server
	stopSrv := make(chan struct{})
	for i := 0; i < c.Servers; i++ {
		l := pn.listen(fmt.Sprintf("srv%d.test:80", i))
		srv := &http.Server{Handler: &c26Server{idx: i, c: &c, log: log, stop: stopSrv}}
		servers = append(servers, srv)
		go srv.Serve(l)
	}
	tr := &http.Transport{DialContext: pn.dial}
	tt := types.TransmitTypeUpstream
	if c.Peer {
		tt = types.TransmitTypePeer
	}
	var hdrs map[string]string
	if c.ExtraHeaders {
		hdrs = map[string]string{"X-Honeycomb-Team": "overridden", "X-Extra": "1", "Content-Type": "text/plain"}
	}
	mx := txNewMetrics()
	dt := transmit.NewDirectTransmission(tt, tr, c.MaxBatch, time.Duration(c.BatchTimeout), time.Duration(c.SendTimeout), c.Compress, hdrs)
	dt.Logger = &logger.NullLogger{}
	dt.Version = "verif"
	dt.Metrics = mx
	dt.Config = &config.MockConfig{}
	t0 := time.Now()
	log.t0 = t0
	if err := dt.Start(); err != nil {
		panic(err)
	}
	obs := c26Obs{enqAt: map[int]time.Duration{}}
	q := c.BatchTimeout / 4
	for i, op := range c.Ops {
		switch op.Op {
		case "enq":
			obs.enqAt[i] = time.Since(t0)
			dt.EnqueueEvent(prep[i].ev)
		case "adv":
			d := op.D
			if op.Aim == "tick" && q > 0 {
				el := int64(time.Since(t0))
				next := (el/q + 1) * q
				d = next - el + int64(op.K)*q + op.D
			}
			if d > 0 {
				time.Sleep(time.Duration(d))
			}
		}
		wait()
	}
	if c.StopAfterLast > 0 {
		time.Sleep(time.Duration(c.StopAfterLast))
		wait()
	}
	obs.stopCalled = time.Since(t0)
	log.mu.Lock()
	obs.nReqAtStop = len(log.reqs)
	log.mu.Unlock()
	dt.Stop()
	obs.stopReturn = time.Since(t0)
	log.mu.Lock()
	nAtReturn := len(log.reqs)
	log.mu.Unlock()
	// anything still pending would show up now
	if inBubble {
		time.Sleep(2*time.Duration(c.BatchTimeout) + 2*time.Duration(c.SendTimeout))
		wait()
	}
	close(stopSrv)
	tr.CloseIdleConnections()
	for _, s := range servers {
		s.Close()
	}
	wait()
	log.mu.Lock()
	obs.reqs = append([]c26Req(nil), log.reqs...)
	log.mu.Unlock()
	_ = nAtReturn
	prefix := "libhoney_" + tt.String()
	obs.queued, obs.ups, obs.downs = mx.upDown(prefix + "_queued_items")
	obs.respErrors = mx.counter(prefix + "_response_errors")
	obs.sendRetries = mx.counter(prefix + "_send_retries")
	return obs
}

func c26Retryable(r c26Resp) bool {
	return r.Kind == "timeout" || (r.Kind == "status" && (r.Code == 429 || r.Code == 503))
}

// c26DefiniteRetryAfter: the answer is a 429/503 whose Retry-After is unambiguous
// (whole seconds 1..59 or an HTTP date 30/59 s ahead); returns the (approximate) delay.
func c26DefiniteRetryAfter(r c26Resp) (time.Duration, bool) {
	if r.Kind != "status" || (r.Code != 429 && r.Code != 503) {
		return 0, false
	}
	switch r.RA {
	case "1":
		return time.Second, true
	case "2":
		return 2 * time.Second, true
	case "5":
		return 5 * time.Second, true
	case "30", "@30":
		return 30 * time.Second, true
	case "59", "@59":
		return 59 * time.Second, true
	}
	return 0, false
}

func c26Perturbing(r c26Resp) bool {
	return r.Kind == "timeout" || r.Kind == "slow" || r.Kind == "hangup" || (r.Kind == "status" && (r.Code == 429 || r.Code == 503))
}

func execC26(c c26Case) vkit.Result {
	var res vkit.Result
	if c.Conc != nil {
		execC26Conc(c, &res)
		return res
	}
	if c.Servers < 1 || c.MaxBatch < 1 || c.BatchTimeout < 4 || c.SendTimeout < 1 {
		res.Class("invalid-case")
		return res
	}
	// refinery's package-level zstd encoder creates its worker channel on first
	// use; make that happen outside any bubble.
	c26WarmOnce.Do(func() {
		w := c26Case{Servers: 1, MaxBatch: 1, BatchTimeout: int64(time.Second), SendTimeout: int64(5 * time.Second), Compress: true,
			Ops: []c26Op{{Op: "enq"}}}
		c26Run(w, c26Prepare(w), false)
	})
	startWall := time.Now()
	prep := c26Prepare(c)
	var obs c26Obs
	txBubble(c26T, func() { obs = c26Run(c, prep, true) })
	if os.Getenv("C26_SLOW") != "" && time.Since(startWall) > 500*time.Millisecond {
		cj, _ := json.Marshal(c)
		fmt.Fprintf(os.Stderr, "C26_SLOW %v %s\n", time.Since(startWall), cj)
	}
	c26Judge(c, prep, obs, &res)
	return res
}

func c26Judge(c c26Case, prep map[int]c26Prepared, obs c26Obs, res *vkit.Result) {
	bt := time.Duration(c.BatchTimeout)
	limit := bt + bt/4
	type group struct {
		reqs []c26Req
	}
	groups := map[string]*group{}
	var order []string
	eventGroups := map[int]map[string]bool{}
	perturbed := map[string]bool{} // destination (server|path|key) that saw a delaying answer
	destOf := func(r c26Req) string { return fmt.Sprintf("%d|%s|%s", r.Srv, r.Path, r.Key) }
	failureSeen := false
	for _, r := range obs.reqs {
		if r.DecodeErr != "" {
			res.Violate("C26/request/undecodable", "request %d to srv%d %s: %s", r.Seq, r.Srv, r.Path, r.DecodeErr)
			continue
		}
		if r.Resp.Kind != "ok" {
			failureSeen = true
		}
		if c26Perturbing(r.Resp) {
			perturbed[destOf(r)] = true
		}
		gk := fmt.Sprintf("%d|%s|%s|%v", r.Srv, r.Path, r.Key, r.IDs)
		g := groups[gk]
		if g == nil {
			g = &group{}
			groups[gk] = g
			order = append(order, gk)
		}
		g.reqs = append(g.reqs, r)
		seen := map[int]bool{}
		for _, id := range r.IDs {
			if seen[id] {
				res.Violate("C26/duplicate/event-twice-in-one-request", "event %d appears twice in request %d", id, r.Seq)
			}
			seen[id] = true
			if eventGroups[id] == nil {
				eventGroups[id] = map[string]bool{}
			}
			eventGroups[id][gk] = true
		}
		// limits
		if r.PlainLen > c26MaxBody {
			res.Violate("C26/limit/body-over-5MB", "request %d to srv%d carries %d bytes (uncompressed) in %d events", r.Seq, r.Srv, r.PlainLen, len(r.IDs))
		}
		if r.PlainLen > 4_000_000 {
			res.Class("body>4MB")
		}
		if r.WireLen > c26MaxBody {
			res.Class("compressed-wire-body>5MB")
		}
		if len(r.IDs) > c.MaxBatch {
			res.Violate("C26/limit/batch-over-MaxBatchSize", "request %d holds %d events, MaxBatchSize=%d", r.Seq, len(r.IDs), c.MaxBatch)
		}
		if len(r.IDs) == c.MaxBatch && c.MaxBatch > 1 {
			res.Class("full-batch")
		}
		if len(r.IDs) == 0 {
			res.Violate("C26/request/empty-batch", "request %d to srv%d has no events", r.Seq, r.Srv)
		}
		for i, n := range r.EvLens {
			if n > c26MaxEvent {
				res.Violate("C26/oversize/event-sent", "event %d occupies %d bytes in request %d", r.IDs[i], n, r.Seq)
			}
			if n > c26MaxEvent-200 {
				res.Class("sent-event-within-200B-of-1MB")
			}
		}
		if r.Seq >= obs.nReqAtStop && r.Attempt == 1 {
			res.Class("flushed-by-stop")
		}
		if r.At > obs.stopReturn {
			res.Violate("C26/stop/request-after-stop-returned", "request %d arrived at %v, Stop returned at %v", r.Seq, r.At, obs.stopReturn)
		}
	}

	nEvents, dropped, destinations := 0, 0, map[string]bool{}
	for i, op := range c.Ops {
		if op.Op != "enq" {
			continue
		}
		nEvents++
		p := prep[i]
		key, ds := c26Keys[op.Key%len(c26Keys)], c26Dataset(op.DS)
		destinations[fmt.Sprintf("%d|%d|%s|%s", op.Srv, op.Form, key, ds)] = true
		gs := eventGroups[i]
		if len(gs) == 0 {
			switch {
			case op.Srv >= c.Servers:
				res.Class("dead-host") // nobody listens there: nothing can be observed
			case p.canon > c26MaxEvent:
				dropped++
				res.Class("oversize-dropped")
			case p.canon > c26MaxEvent-c26SizeSlack:
				dropped++ // counts as (possibly) oversize; either outcome is accepted here
				res.Class("size-boundary-band-dropped")
			default:
				res.Violate("C26/lost/event-never-sent", "event %d (canonical size %d, dest srv%d form %d key %q dataset %q) is in no request although Stop returned",
					i, p.canon, op.Srv, op.Form, key, ds)
			}
			continue
		}
		if len(gs) > 1 {
			res.Violate("C26/duplicate/event-in-two-batches", "event %d was sent in %d different batches: %v", i, len(gs), txSortedKeys(gs))
		}
		for gk := range gs {
			r := groups[gk].reqs[0]
			if c26DotDataset(ds) {
				res.Class("dot-segment-dataset")
				want := "/1/batch/" + ds
				if op.Form >= 2 {
					want = "/px" + want
				}
				// on the wire the dots have to be percent-encoded (a literal dot
				// segment would be resolved away); judge the decoded segments
				got := r.Path
				if i := strings.LastIndex(got, "/"); i >= 0 {
					if seg, err := url.PathUnescape(got[i+1:]); err == nil && strings.Contains(got[i+1:], "%") {
						got = got[:i+1] + seg
					}
				}
				if r.Srv != op.Srv || got != want || r.Key != key {
					res.Violate("C26/misaddressed/dot-segment-dataset", "event %d for dataset %q (host %q) arrived at srv%d on path %q", i, ds, c26HostURL(op.Srv, op.Form), r.Srv, r.Path)
				}
				continue
			}
			if r.Srv != op.Srv {
				res.Violate("C26/misaddressed/host", "event %d for srv%d arrived at srv%d", i, op.Srv, r.Srv)
			}
			prefix := "/1/batch/"
			if op.Form >= 2 {
				prefix = "/px/1/batch/"
			}
			if !strings.HasPrefix(r.Path, prefix) {
				res.Violate("C26/misaddressed/host", "event %d for host %q arrived on path %q", i, c26HostURL(op.Srv, op.Form), r.Path)
			} else if got, err := url.PathUnescape(strings.TrimPrefix(r.Path, prefix)); err != nil || got != ds {
				res.Violate("C26/misaddressed/dataset", "event %d for dataset %q arrived on path %q (dataset %q)", i, ds, r.Path, got)
			}
			if r.Key != key {
				res.Violate("C26/misaddressed/key", "event %d with key %q arrived with X-Honeycomb-Team %q", i, key, r.Key)
			}
		}
	}

	// When about as many requests as refinery has senders (500) received a
	// delaying answer, a flushed batch may have had to wait for a free sender:
	// that is resource exhaustion, not the dispatch bound of the statement.
	nPerturbing := 0
	for _, r := range obs.reqs {
		if c26Perturbing(r.Resp) {
			nPerturbing++
		}
	}
	poolBusy := nPerturbing >= c26PoolSize*4/5
	if poolBusy {
		res.Class("shape=sender-pool-saturated")
	}
	// attempts and timing per batch
	for _, gk := range order {
		g := groups[gk]
		first := g.reqs[0]
		if n := len(g.reqs); n > 2 {
			res.Violate("C26/retry/more-than-two-attempts", "batch %v to srv%d was attempted %d times (answers: %s)", first.IDs, first.Srv, n, c26Answers(g.reqs))
		} else if n == 2 {
			switch {
			case c26Retryable(first.Resp):
				res.Class("retried-after-" + first.Resp.Kind)
				if first.Resp.Kind == "status" {
					res.Class("retry-after=" + first.Resp.RA)
				}
			case first.Resp.Kind == "hangup":
				res.Class("retried-after-hangup")
			default:
				res.Violate("C26/retry/after-final-answer", "batch %v to srv%d was sent again after answer %+v", first.IDs, first.Srv, first.Resp)
			}
		} else if c26Retryable(first.Resp) {
			res.Class("not-retried-" + first.Resp.Kind + "-ra=" + first.Resp.RA)
		}
		// The retry contract (one more attempt after a 429/503 whose Retry-After is a
		// plain number of seconds or an HTTP date 0 < delay < 60 s away) holds no matter
		// whether Stop has been called: a shutdown flushes pending batches like any other dispatch.
		if delay, ok := c26DefiniteRetryAfter(first.Resp); ok {
			phase := "before-stop"
			switch {
			case first.Seq >= obs.nReqAtStop:
				phase = "shutdown-flush"
				res.Class("delaying-answer-to-a-shutdown-flush-request")
			case first.At+delay > obs.stopCalled:
				phase = "in-retry-after-wait-when-stop-was-called"
				res.Class("stop-called-during-a-retry-after-wait")
			}
			if len(g.reqs) < 2 {
				res.Violate("C26/retry/usable-retry-after-not-retried/"+phase, "batch %v to srv%d was answered %d with Retry-After %q at %v and never sent again (Stop called at %v, returned at %v)",
					first.IDs, first.Srv, first.Resp.Code, first.Resp.RA, first.At, obs.stopCalled, obs.stopReturn)
			}
		}
		minEnq := time.Duration(math.MaxInt64)
		for _, id := range first.IDs {
			if at, ok := obs.enqAt[id]; ok && at < minEnq {
				minEnq = at
			}
		}
		if minEnq == time.Duration(math.MaxInt64) {
			continue
		}
		late := first.At - minEnq
		switch {
		case poolBusy:
			res.Class("timing-excused-sender-pool-possibly-saturated")
		case perturbed[destOf(first)]:
			res.Class("timing-excused-by-scripted-delay")
		case late > limit:
			res.Violate("C26/timing/dispatch-later-than-1.25xBatchTimeout", "batch %v: first event enqueued at %v, request received at %v (%v later; BatchTimeout=%v, limit %v)",
				first.IDs, minEnq, first.At, late, bt, limit)
		default:
			res.Class("timing-judged")
			if late >= limit-2 {
				res.Class("dispatched-within-2ns-of-1.25x")
			} else if late >= bt {
				res.Class("dispatched-in-[1.0,1.25)x")
			}
		}
	}

	// coverage classes: batches split by the 5 MB limit, transport-level failures, and both together
	{
		var firsts []c26Req // first attempts in arrival order
		final := map[string]c26Req{}
		for _, gk := range order {
			g := groups[gk]
			firsts = append(firsts, g.reqs[0])
			final[gk] = g.reqs[len(g.reqs)-1]
		}
		transport := func(r c26Req) bool {
			gk := fmt.Sprintf("%d|%s|%s|%v", r.Srv, r.Path, r.Key, r.IDs)
			f := final[gk]
			return f.Resp.Kind == "hangup" || f.Resp.Kind == "timeout"
		}
		for _, r := range firsts {
			if transport(r) {
				res.Class("transport-level-failure(final)")
			}
		}
		for i, r := range firsts {
			for _, nx := range firsts[i+1:] {
				if destOf(nx) != destOf(r) || len(nx.EvLens) == 0 {
					continue
				}
				// nx continues r's dispatch if its first event would not have fitted into r
				if r.PlainLen+nx.EvLens[0] > c26MaxBody-8 && nx.IDs[0] > r.IDs[len(r.IDs)-1] {
					res.Class("dispatch-split-by-5MB")
					if transport(r) {
						res.Class("transport-failure-on-non-final-sub-batch")
					}
				}
				break
			}
		}
	}

	// gauge and error accounting once every event has an outcome (Stop returned)
	if obs.queued != 0 {
		res.Violate("C26/gauge/queued-items-nonzero", "queued_items = %d after Stop (ups %d, downs %d, events %d)", obs.queued, obs.ups, obs.downs, nEvents)
	}
	if int(obs.respErrors) < dropped {
		res.Violate("C26/oversize/not-counted-as-error", "%d events were dropped as oversize but response_errors = %d", dropped, obs.respErrors)
	}

	if obs.sendRetries > 0 {
		res.Class("send_retries>0")
	}
	if len(destinations) >= 2 {
		res.Class("destinations>=2")
		if failureSeen {
			res.NonTrivial = true
		}
	}
	if failureSeen {
		res.Class("scripted-failure-exercised")
	}
	res.Class(fmt.Sprintf("maxbatch=%d", c.MaxBatch))
}

func c26Answers(rs []c26Req) string {
	var parts []string
	for _, r := range rs {
		parts = append(parts, fmt.Sprintf("%s/%d/%s@%v", r.Resp.Kind, r.Resp.Code, r.Resp.RA, r.At))
	}
	sort.Strings(parts)
	return strings.Join(parts, " ")
}

func TestC26(t *testing.T) {
	c26T = t
	vkit.Run(t, vkit.Spec[c26Case]{
		ID: "C26",
		Rule: "rapid-generated event streams (1-3 scripted servers x host forms x keys x datasets, sizes up to and beyond 1 MB / 5 MB, MaxBatchSize 1/2/5/50) " +
			"with generated enqueue instants aimed at the stale-dispatch ticker grid, against the real DirectTransmission inside a synctest bubble over an in-memory net.Pipe network; " +
			"answers are scripted per batch (ok, per-event errors, short/undecodable bodies, 4xx/5xx, 429/503 with many Retry-After forms, time-outs, slow answers, hang-ups, dead hosts). " +
			"Judged on the requests the servers decoded with an independent msgpack decoder, virtual arrival times and the queued_items updown. " +
			"Non-trivial: at least 2 destinations and at least one scripted failure answer actually served; for the concurrent-enqueue shape: at least one round in which all goroutines met at the barrier on a fresh destination. Distinct = distinct case JSON.",
		Assumptions: []string{
			"testing/synctest virtual time and net.Pipe stand in for the wall clock and TCP (exact timing; real net/http client and server code runs)",
			"an event whose canonical msgpack size is within 64 bytes below 1,000,000 may be dropped or sent (refinery's own encoding is a few bytes longer than the canonical one)",
			"the 5 MB limit is judged on the uncompressed request body; a compressed wire body is only classified",
			"a batch's dispatch instant is the arrival of its first attempt; requests to a destination that was answered with a scripted delay/429/503/time-out are excused from the timing bound (sub-batches of one dispatch are sent sequentially)",
			"when at least 400 requests of a case received a delaying answer (about as many as refinery has senders, 500) a flushed batch may have waited for a free sender: the timing bound is not judged for that case (aimed shape \"saturated sender pool\", 1 case in 50 + a hand-kept replay)",
			"a second attempt is accepted only after 429/503/time-out (or a hang-up, don't-care); that a retry happens is asserted only for a first attempt answered 429/503 with an unambiguous Retry-After (whole seconds 1..59 or an HTTP date 30/59 s ahead), before, during and after Stop alike",
			"scripted-fault histories enqueue from a single goroutine; 1 case in 8 is the concurrent shape: 2-8 real goroutines, released together by a spin barrier inside the injected Clock.Now() (called by EnqueueEvent right before the batch lookup), enqueue the first events of fresh destinations; only the final accounting after Stop is judged there",
		},
		Gen:  genC26,
		Exec: execC26,
	})
}
