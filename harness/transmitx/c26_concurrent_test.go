package transmitx

import (
	"context"
	"fmt"
	"net/http"
	"net/url"
	"runtime"
	"strings"
	"sync"
	"sync/atomic"
	"time"

	"github.com/jonboulle/clockwork"
	"pgregory.net/rapid"

	"github.com/honeycombio/refinery/config"
	"github.com/honeycombio/refinery/logger"
	"github.com/honeycombio/refinery/transmit"
	"github.com/honeycombio/refinery/types"
	"github.com/honeycombio/refinery/verifharness/vkit"
)

// C26, concurrent-enqueue shape: several real goroutines hand the transmission
// the FIRST events for brand-new (host, key, dataset) destinations at the same
// moment (and, in some rounds, events for destinations that already exist).
// Nothing but Stop dispatches (BatchTimeout one hour), every answer is 200/202,
// and the verdict is the final accounting after Stop: every event in exactly
// one request of its own destination, queued_items back to 0. No timing is
// judged.
//
// To make the goroutines really collide, the transmission's injectable Clock is
// wrapped: EnqueueEvent calls Clock.Now() immediately before it looks up the
// destination's batch, and the wrapper holds the first W callers of a round in
// a spin barrier until all W have arrived. This only shapes the schedule; every
// interleaving it produces can happen in production.

type c26Conc struct {
	Workers  int   `json:"workers"`
	MaxBatch int   `json:"max_batch"`
	Compress bool  `json:"compress,omitempty"`
	Rounds   []int `json:"rounds"` // per round: destination number; a number seen before = existing destination
}

func genC26Conc(t *rapid.T) *c26Conc {
	cc := &c26Conc{}
	cc.Workers = rapid.SampledFrom([]int{2, 4, 4, 8}).Draw(t, "workers")
	cc.MaxBatch = rapid.SampledFrom([]int{2, cc.Workers, 100, 100}).Draw(t, "concmaxbatch")
	cc.Compress = rapid.Bool().Draw(t, "conccompress")
	n := rapid.IntRange(5, 40).Draw(t, "nrounds")
	if vkit.Thorough() {
		n = rapid.IntRange(5, 150).Draw(t, "nrounds2")
	}
	next := 0
	for i := 0; i < n; i++ {
		if next > 0 && rapid.IntRange(0, 5).Draw(t, "reuse") == 2 {
			cc.Rounds = append(cc.Rounds, rapid.IntRange(0, next-1).Draw(t, "olddest"))
		} else {
			cc.Rounds = append(cc.Rounds, next)
			next++
		}
	}
	return cc
}

type c26Barrier struct {
	want    int32
	arrived atomic.Int32
	timeout atomic.Bool
}

func (b *c26Barrier) arrive() {
	n := b.arrived.Add(1)
	if n > b.want {
		return
	}
	start := time.Now()
	for i := 0; b.arrived.Load() < b.want; i++ {
		if i%256 == 255 {
			if time.Since(start) > 20*time.Millisecond {
				b.timeout.Store(true)
				return
			}
			runtime.Gosched()
		}
	}
}

type c26BarrierClock struct {
	clockwork.Clock
	cur atomic.Pointer[c26Barrier]
}

func (c *c26BarrierClock) Now() time.Time {
	if b := c.cur.Load(); b != nil {
		b.arrive()
	}
	return c.Clock.Now()
}

func c26ConcDest(n int) (key, ds string) {
	return c26Keys[n%len(c26Keys)], fmt.Sprintf("fresh %d/x", n)
}

func execC26Conc(c c26Case, res *vkit.Result) {
	cc := c.Conc
	if cc.Workers < 1 || cc.Workers > 16 || cc.MaxBatch < 1 || len(cc.Rounds) == 0 || len(cc.Rounds) > 2000 {
		res.Class("invalid-case")
		return
	}
	pn := txNewPipeNet()
	sc := c26Case{Servers: 1, SendTimeout: int64(time.Minute)}
	log := &c26Log{attempts: map[string]int{}, t0: time.Now()}
	stopSrv := make(chan struct{})
	srv := &http.Server{Handler: &c26Server{idx: 0, c: &sc, log: log, stop: stopSrv}}
	go srv.Serve(pn.listen("srv0.test:80"))
	tr := &http.Transport{DialContext: pn.dial}
	mx := txNewMetrics()
	dt := transmit.NewDirectTransmission(types.TransmitTypeUpstream, tr, cc.MaxBatch, time.Hour, time.Minute, cc.Compress, nil)
	clk := &c26BarrierClock{Clock: clockwork.NewRealClock()}
	dt.Logger, dt.Version, dt.Metrics, dt.Config, dt.Clock = &logger.NullLogger{}, "verif", mx, &config.MockConfig{}, clk
	if err := dt.Start(); err != nil {
		panic(err)
	}
	type evInfo struct{ key, ds string }
	info := map[int]evInfo{}
	seenDest := map[int]bool{}
	racedFresh, racedKnown := 0, 0
	cfg := &config.MockConfig{}
	for r, dest := range cc.Rounds {
		key, ds := c26ConcDest(dest)
		evs := make([]*types.Event, cc.Workers)
		for w := range evs {
			id := r*cc.Workers + w
			info[id] = evInfo{key, ds}
			p := types.NewPayload(cfg, map[string]any{"id": int64(id)})
			p.ExtractMetadata()
			evs[w] = &types.Event{Context: context.Background(), APIHost: "http://srv0.test", APIKey: key, Dataset: ds,
				Environment: "env", SampleRate: 1, Timestamp: c26Times[0], Data: p}
		}
		b := &c26Barrier{want: int32(cc.Workers)}
		clk.cur.Store(b)
		var wg sync.WaitGroup
		for _, ev := range evs {
			wg.Add(1)
			go func() {
				defer wg.Done()
				dt.EnqueueEvent(ev)
			}()
		}
		wg.Wait()
		clk.cur.Store(nil)
		if cc.Workers >= 2 && !b.timeout.Load() {
			if seenDest[dest] {
				racedKnown++
			} else {
				racedFresh++
			}
		}
		seenDest[dest] = true
	}
	dt.Stop()
	close(stopSrv)
	tr.CloseIdleConnections()
	srv.Close()
	log.mu.Lock()
	reqs := append([]c26Req(nil), log.reqs...)
	log.mu.Unlock()

	count := map[int]int{}
	for _, rq := range reqs {
		if rq.DecodeErr != "" {
			res.Violate("C26/request/undecodable", "concurrent shape: request %d: %s", rq.Seq, rq.DecodeErr)
			continue
		}
		if len(rq.IDs) > cc.MaxBatch {
			res.Violate("C26/limit/batch-over-MaxBatchSize", "concurrent shape: request %d holds %d events, MaxBatchSize=%d", rq.Seq, len(rq.IDs), cc.MaxBatch)
		}
		gotDS, _ := url.PathUnescape(strings.TrimPrefix(rq.Path, "/1/batch/"))
		for _, id := range rq.IDs {
			count[id]++
			if in, ok := info[id]; !ok || in.key != rq.Key || in.ds != gotDS || !strings.HasPrefix(rq.Path, "/1/batch/") {
				res.Violate("C26/concurrent/misaddressed", "event %d (key %q dataset %q) arrived with key %q on path %q", id, in.key, in.ds, rq.Key, rq.Path)
			}
		}
	}
	lost, dup := 0, 0
	firstLost := -1
	for id := 0; id < len(cc.Rounds)*cc.Workers; id++ {
		switch n := count[id]; {
		case n == 0:
			lost++
			if firstLost < 0 {
				firstLost = id
			}
		case n > 1:
			dup++
		}
	}
	if lost > 0 {
		r := firstLost / cc.Workers
		res.Violate("C26/concurrent/event-never-sent", "%d of %d events enqueued concurrently are in no request after Stop (first: event %d, round %d, destination %d, %d workers)",
			lost, len(cc.Rounds)*cc.Workers, firstLost, r, cc.Rounds[r], cc.Workers)
	}
	if dup > 0 {
		res.Violate("C26/concurrent/event-sent-twice", "%d events enqueued concurrently were delivered more than once", dup)
	}
	if q, ups, downs := mx.upDown("libhoney_upstream_queued_items"); q != 0 {
		res.Violate("C26/concurrent/queued-items-nonzero", "queued_items = %d after Stop (ups %d, downs %d) with concurrent enqueuers", q, ups, downs)
	}
	res.Class("shape=concurrent-enqueue")
	if racedFresh > 0 {
		res.Class("concurrent:>=2-goroutines-raced-on-a-fresh-destination")
		res.NonTrivial = true
	}
	if racedKnown > 0 {
		res.Class("concurrent:>=2-goroutines-raced-on-an-existing-destination")
	}
	for i := 0; i < racedFresh; i++ {
		res.Class("concurrent:fresh-destination-race-round")
	}
	res.Obs = map[string]int{"rounds": len(cc.Rounds), "raced_fresh": racedFresh, "raced_known": racedKnown, "requests": len(reqs)}
}
