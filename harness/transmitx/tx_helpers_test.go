package transmitx

// Shared helpers of the transmitx engine (C26, C16): an in-memory network for
// http.Transport / http.Server built on net.Pipe (usable inside a synctest
// bubble), an independent decoder for the msgpack batches refinery sends, a
// recording metrics double and a bubble runner.

import (
	"bytes"
	"compress/gzip"
	"context"
	"errors"
	"fmt"
	"io"
	"net"
	"runtime/debug"
	"sort"
	"sync"
	"testing"
	"testing/synctest"
	"time"

	"github.com/honeycombio/refinery/metrics"
	"github.com/klauspost/compress/zstd"
	"github.com/vmihailenco/msgpack/v5"
)

// ---------------------------------------------------------------- bubble

// txBubble runs f inside a testing/synctest bubble. A panic inside the bubble
// is captured and re-raised outside, where vkit turns it into harness/panic.
func txBubble(t *testing.T, f func()) {
	var pv any
	var stack string
	synctest.Test(t, func(*testing.T) {
		defer func() {
			if p := recover(); p != nil {
				pv = p
				stack = string(debug.Stack())
			}
		}()
		f()
	})
	if pv != nil {
		panic(fmt.Sprintf("panic inside bubble: %v\n%s", pv, stack))
	}
}

// ---------------------------------------------------------------- pipe net

type txPipeAddr string

func (a txPipeAddr) Network() string { return "pipe" }
func (a txPipeAddr) String() string  { return string(a) }

// txPipeListener is a net.Listener fed by txPipeNet.dial.
type txPipeListener struct {
	addr   string
	ch     chan net.Conn
	closed chan struct{}
	once   sync.Once
}

func (l *txPipeListener) Accept() (net.Conn, error) {
	select {
	case c := <-l.ch:
		return c, nil
	case <-l.closed:
		return nil, net.ErrClosed
	}
}
func (l *txPipeListener) Close() error   { l.once.Do(func() { close(l.closed) }); return nil }
func (l *txPipeListener) Addr() net.Addr { return txPipeAddr(l.addr) }

// txPipeNet maps "host:port" to listeners; refuse lists addresses whose dial fails.
type txPipeNet struct {
	mu        sync.Mutex
	listeners map[string]*txPipeListener
	refuse    map[string]bool
	dials     map[string]int
}

func txNewPipeNet() *txPipeNet {
	return &txPipeNet{listeners: map[string]*txPipeListener{}, refuse: map[string]bool{}, dials: map[string]int{}}
}

func (n *txPipeNet) listen(addr string) *txPipeListener {
	l := &txPipeListener{addr: addr, ch: make(chan net.Conn), closed: make(chan struct{})}
	n.mu.Lock()
	n.listeners[addr] = l
	n.mu.Unlock()
	return l
}

func (n *txPipeNet) dial(ctx context.Context, network, addr string) (net.Conn, error) {
	n.mu.Lock()
	l := n.listeners[addr]
	refuse := n.refuse[addr]
	n.dials[addr]++
	n.mu.Unlock()
	if l == nil || refuse {
		return nil, &net.OpError{Op: "dial", Net: network, Addr: txPipeAddr(addr), Err: errors.New("connection refused")}
	}
	c1, c2 := net.Pipe()
	select {
	case l.ch <- c2:
		return c1, nil
	case <-l.closed:
		c1.Close()
		c2.Close()
		return nil, &net.OpError{Op: "dial", Net: network, Addr: txPipeAddr(addr), Err: errors.New("connection refused")}
	case <-ctx.Done():
		c1.Close()
		c2.Close()
		return nil, ctx.Err()
	}
}

// ---------------------------------------------------------------- batch decoding

// The decoder is created once, outside any bubble (its worker channel must not
// belong to a bubble); DecodeAll is safe for concurrent use.
var txZstdDec = func() *zstd.Decoder {
	d, err := zstd.NewReader(nil, zstd.WithDecoderConcurrency(4), zstd.WithDecoderMaxMemory(1<<30))
	if err != nil {
		panic(err)
	}
	return d
}()

// txWireEvent is one event as decoded from a request body by the independent
// decoder (vmihailenco/msgpack generic decoding - not refinery's Payload).
type txWireEvent struct {
	WireLen    int // bytes this event occupies in the uncompressed body
	HasTime    bool
	Time       time.Time
	SampleRate int64
	Data       map[string]any
}

// txDecodeBatch returns the uncompressed body and its events.
func txDecodeBatch(contentEncoding string, body []byte) (plain []byte, evs []txWireEvent, err error) {
	switch contentEncoding {
	case "", "identity":
		plain = body
	case "zstd":
		plain, err = txZstdDec.DecodeAll(body, nil)
		if err != nil {
			return nil, nil, fmt.Errorf("zstd: %w", err)
		}
	case "gzip":
		zr, err := gzip.NewReader(bytes.NewReader(body))
		if err != nil {
			return nil, nil, fmt.Errorf("gzip: %w", err)
		}
		plain, err = io.ReadAll(zr)
		if err != nil {
			return nil, nil, fmt.Errorf("gzip: %w", err)
		}
	default:
		return nil, nil, fmt.Errorf("unknown content-encoding %q", contentEncoding)
	}
	dec := msgpack.NewDecoder(bytes.NewReader(plain))
	n, err := dec.DecodeArrayLen()
	if err != nil {
		return plain, nil, fmt.Errorf("array header: %w", err)
	}
	for i := 0; i < n; i++ {
		raw, err := dec.DecodeRaw()
		if err != nil {
			return plain, evs, fmt.Errorf("event %d: %w", i, err)
		}
		var m map[string]any
		d2 := msgpack.NewDecoder(bytes.NewReader(raw))
		d2.UseLooseInterfaceDecoding(false)
		if err := d2.Decode(&m); err != nil {
			return plain, evs, fmt.Errorf("event %d: %w", i, err)
		}
		ev := txWireEvent{WireLen: len(raw)}
		for k, v := range m {
			switch k {
			case "time":
				if tm, ok := v.(time.Time); ok {
					ev.HasTime, ev.Time = true, tm
				} else {
					return plain, evs, fmt.Errorf("event %d: time is %T", i, v)
				}
			case "samplerate":
				sr, ok := txToInt(v)
				if !ok {
					return plain, evs, fmt.Errorf("event %d: samplerate is %T", i, v)
				}
				ev.SampleRate = sr
			case "data":
				dm, ok := v.(map[string]any)
				if !ok {
					return plain, evs, fmt.Errorf("event %d: data is %T", i, v)
				}
				ev.Data = dm
			default:
				return plain, evs, fmt.Errorf("event %d: unexpected top-level key %q", i, k)
			}
		}
		if ev.Data == nil {
			return plain, evs, fmt.Errorf("event %d: no data", i)
		}
		evs = append(evs, ev)
	}
	// nothing may follow the array
	if _, err := dec.DecodeRaw(); err == nil {
		return plain, evs, errors.New("trailing bytes after the batch array")
	}
	return plain, evs, nil
}

func txToInt(v any) (int64, bool) {
	switch x := v.(type) {
	case int8:
		return int64(x), true
	case int16:
		return int64(x), true
	case int32:
		return int64(x), true
	case int64:
		return x, true
	case int:
		return int64(x), true
	case uint8:
		return int64(x), true
	case uint16:
		return int64(x), true
	case uint32:
		return int64(x), true
	case uint64:
		return int64(x), true
	case uint:
		return int64(x), true
	}
	return 0, false
}

// ---------------------------------------------------------------- metrics double

// txMetrics implements metrics.Metrics and only records.
type txMetrics struct {
	mu       sync.Mutex
	counters map[string]int64
	updown   map[string]int64
	ups      map[string]int64
	downs    map[string]int64
	gauges   map[string]float64
	consts   map[string]float64
}

func txNewMetrics() *txMetrics {
	return &txMetrics{counters: map[string]int64{}, updown: map[string]int64{}, ups: map[string]int64{}, downs: map[string]int64{},
		gauges: map[string]float64{}, consts: map[string]float64{}}
}

var _ metrics.Metrics = (*txMetrics)(nil)

func (m *txMetrics) Register(metrics.Metadata) {}
func (m *txMetrics) Increment(name string)     { m.mu.Lock(); m.counters[name]++; m.mu.Unlock() }
func (m *txMetrics) Gauge(name string, v float64) {
	m.mu.Lock()
	m.gauges[name] = v
	m.mu.Unlock()
}
func (m *txMetrics) Count(name string, n int64)     { m.mu.Lock(); m.counters[name] += n; m.mu.Unlock() }
func (m *txMetrics) Histogram(name string, _ float64) {}
func (m *txMetrics) Up(name string) {
	m.mu.Lock()
	m.updown[name]++
	m.ups[name]++
	m.mu.Unlock()
}
func (m *txMetrics) Down(name string) {
	m.mu.Lock()
	m.updown[name]--
	m.downs[name]++
	m.mu.Unlock()
}
func (m *txMetrics) Get(name string) (float64, bool) {
	m.mu.Lock()
	defer m.mu.Unlock()
	if v, ok := m.consts[name]; ok {
		return v, true
	}
	if v, ok := m.counters[name]; ok {
		return float64(v), true
	}
	if v, ok := m.gauges[name]; ok {
		return v, true
	}
	if v, ok := m.updown[name]; ok {
		return float64(v), true
	}
	return 0, false
}
func (m *txMetrics) Store(name string, v float64) { m.mu.Lock(); m.consts[name] = v; m.mu.Unlock() }

func (m *txMetrics) counter(name string) int64 { m.mu.Lock(); defer m.mu.Unlock(); return m.counters[name] }
func (m *txMetrics) upDown(name string) (val, ups, downs int64) {
	m.mu.Lock()
	defer m.mu.Unlock()
	return m.updown[name], m.ups[name], m.downs[name]
}

// ---------------------------------------------------------------- misc

func txSortedKeys[V any](m map[string]V) []string {
	ks := make([]string, 0, len(m))
	for k := range m {
		ks = append(ks, k)
	}
	sort.Strings(ks)
	return ks
}
