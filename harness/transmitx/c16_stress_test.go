package transmitx

import (
	"bytes"
	"encoding/json"
	"errors"
	"fmt"
	"io"
	"math"
	"net"
	"net/http"
	"net/http/httptest"
	"net/url"
	"os"
	"reflect"
	"sort"
	"strings"
	"sync"
	"sync/atomic"
	"testing"
	"time"

	"github.com/jonboulle/clockwork"
	"go.opentelemetry.io/otel/trace/noop"
	"pgregory.net/rapid"

	"github.com/honeycombio/refinery/collect"
	"github.com/honeycombio/refinery/config"
	"github.com/honeycombio/refinery/internal/peer"
	"github.com/honeycombio/refinery/logger"
	"github.com/honeycombio/refinery/pubsub"
	"github.com/honeycombio/refinery/route"
	"github.com/honeycombio/refinery/sample"
	"github.com/honeycombio/refinery/sharder"
	"github.com/honeycombio/refinery/transmit"
	"github.com/honeycombio/refinery/types"
	"github.com/honeycombio/refinery/verifharness/vkit"
)

// C16: stress-relief decisions are deterministic, remembered and delivered intact.
//
// SUT: the real route.Router (incoming + peer listener on loopback, as app.App
// starts them), the real collect.InMemCollector, a stress reliever that
// delegates the keep/drop rule to a real collect.StressRelief and lets the
// case switch "stressed" on and off, a stub sharder (own and foreign traces),
// and either
//   - variant "direct": two real transmit.DirectTransmission (upstream, peer)
//     pointing at a fake Honeycomb API and 1-2 fake peer endpoints; judged on
//     what those servers received (independent msgpack decoder), or
//   - variant "rec": recording transmissions that snapshot every event when it
//     is enqueued and again at the end of the case (a difference = the event
//     was changed after it had been handed to the transmission).
// Nothing in a verdict depends on how long anything took: every verdict is
// taken after all components were stopped and flushed; harness-side lateness
// makes the case inconclusive.

// ---------------------------------------------------------------- case

type c16Trace struct {
	Owner int    `json:"owner"`          // 0 = this node, k = peer k
	Want  string `json:"want,omitempty"` // keep | drop | "" : aim of the trace id under the stress rule (resolved at execution time)
}

type c16Span struct {
	Trace  int  `json:"trace"`
	Root   bool `json:"root,omitempty"`
	Fields int  `json:"fields,omitempty"`
	IDName int  `json:"idname,omitempty"` // which trace-id field name carries the id
	Rate   int  `json:"rate,omitempty"`   // client-side sample rate (0 = absent)
	Probe  bool `json:"probe,omitempty"`  // the span arrives marked meta.refinery.probe=true (a probe sent by another refinery)
}

type c16Op struct {
	Op string `json:"op"` // post | relief | pause
	// post: one HTTP request to /1/batch/<dataset>
	Peer  bool      `json:"peer,omitempty"` // to the peer listener instead of the incoming one
	JSON  bool      `json:"json,omitempty"` // JSON body instead of msgpack
	Key   int       `json:"key,omitempty"`
	DS    int       `json:"ds,omitempty"`
	Spans []c16Span `json:"spans,omitempty"`
	// relief: stress relief is switched on/off
	On bool `json:"on,omitempty"`
	// pause: wall-clock pause in ms (lets batch time-outs fire; never part of a verdict)
	Ms int `json:"ms,omitempty"`
}

type c16Case struct {
	Variant      string     `json:"variant"` // direct | rec
	StressRate   int        `json:"stress_rate"`
	StartCalm    bool       `json:"start_calm,omitempty"` // relief is off at the beginning
	MaxBatch     int        `json:"max_batch"`
	BatchTimeout int        `json:"batch_timeout_ms"`
	Peers        int        `json:"peers"`
	Compress     bool       `json:"compress,omitempty"`
	AddReason    bool       `json:"add_reason,omitempty"`
	Attrs        bool       `json:"attrs,omitempty"` // AdditionalAttributes configured
	Salt         int        `json:"salt,omitempty"`
	Traces       []c16Trace `json:"traces"`
	Ops          []c16Op    `json:"ops"`
}

var c16Keys = []string{"0123456789abcdef0123456789abcdef", "fedcba9876543210fedcba9876543210", "hcaik_01hq0000000000000000000000000000000000000000000000000000000000"}
var c16Datasets = []string{"ds", "d two", "a/b"}
var c16IDNames = []string{"trace.trace_id", "traceId"}

func c16UserFields(variant int) map[string]any {
	switch variant % 3 {
	case 1:
		return map[string]any{"service.name": "svc", "http.status_code": int64(200), "msg": "héllo wörld", "empty": ""}
	case 2:
		return map[string]any{"big": strings.Repeat("abcdefghij", 20), "neg": int64(-3), "f": 0.1}
	}
	return map[string]any{"name": "op", "duration_ms": 12.5, "n": int64(7), "ok": true}
}

// ---------------------------------------------------------------- generator

func genC16(t *rapid.T) c16Case {
	c := c16Case{}
	c.Variant = rapid.SampledFrom([]string{"direct", "direct", "rec"}).Draw(t, "variant")
	c.StressRate = rapid.SampledFrom([]int{1, 2, 2, 3, 10}).Draw(t, "rate")
	c.StartCalm = rapid.IntRange(0, 5).Draw(t, "startcalm") == 3
	c.MaxBatch = rapid.SampledFrom([]int{1, 2, 3, 50}).Draw(t, "maxbatch")
	c.BatchTimeout = rapid.SampledFrom([]int{2, 20, 5000}).Draw(t, "bt")
	c.Peers = rapid.IntRange(1, 2).Draw(t, "peers")
	c.Compress = rapid.Bool().Draw(t, "compress")
	c.AddReason = rapid.Bool().Draw(t, "addreason")
	c.Attrs = rapid.IntRange(0, 3).Draw(t, "attrs") == 2
	nTraces := rapid.IntRange(2, 6).Draw(t, "ntraces")
	if vkit.Thorough() {
		nTraces = rapid.IntRange(2, 12).Draw(t, "ntraces2")
	}
	for i := 0; i < nTraces; i++ {
		tr := c16Trace{}
		if rapid.Bool().Draw(t, "foreign") {
			tr.Owner = rapid.IntRange(1, c.Peers).Draw(t, "owner")
		}
		tr.Want = rapid.SampledFrom([]string{"keep", "keep", "drop", ""}).Draw(t, "want")
		c.Traces = append(c.Traces, tr)
	}
	spanGen := rapid.Custom(func(t *rapid.T) c16Span {
		return c16Span{
			Trace:  rapid.IntRange(0, nTraces-1).Draw(t, "trace"),
			Root:   rapid.IntRange(0, 3).Draw(t, "root") == 1,
			Fields: rapid.IntRange(0, 2).Draw(t, "fields"),
			IDName: rapid.SampledFrom([]int{0, 0, 0, 1}).Draw(t, "idname"),
			Rate:   rapid.SampledFrom([]int{0, 0, 1, 4}).Draw(t, "clientrate"),
			Probe:  rapid.IntRange(0, 5).Draw(t, "probe") == 4,
		}
	})
	opGen := rapid.Custom(func(t *rapid.T) c16Op {
		k := rapid.IntRange(0, 11).Draw(t, "opkind")
		switch {
		case k <= 7:
			return c16Op{Op: "post",
				Peer:  rapid.IntRange(0, 5).Draw(t, "viapeer") == 2,
				JSON:  rapid.IntRange(0, 3).Draw(t, "json") == 2,
				Key:   rapid.SampledFrom([]int{0, 0, 1, 2}).Draw(t, "key"),
				DS:    rapid.SampledFrom([]int{0, 0, 1, 2}).Draw(t, "ds"),
				Spans: rapid.SliceOfN(spanGen, 1, 4).Draw(t, "spans")}
		case k <= 9:
			return c16Op{Op: "relief", On: rapid.IntRange(0, 2).Draw(t, "on") == 1}
		default:
			return c16Op{Op: "pause", Ms: rapid.SampledFrom([]int{1, 5, 30}).Draw(t, "ms")}
		}
	})
	maxOps := 10
	if vkit.Thorough() {
		maxOps = 30
	}
	c.Ops = rapid.SliceOfN(opGen, 1, maxOps).Draw(t, "ops")
	if rapid.Bool().Draw(t, "withlate") {
		// a tail after relief has ended: late spans for the traces seen above
		postGen := opGen.Filter(func(o c16Op) bool { return o.Op == "post" })
		c.Ops = append(c.Ops, c16Op{Op: "relief", On: false})
		c.Ops = append(c.Ops, rapid.SliceOfN(postGen, 1, 3).Draw(t, "lateops")...)
	}
	return c
}

// ---------------------------------------------------------------- doubles

// c16Stress: Stressed() is the case's switch; the keep/drop rule is the real one.
type c16Stress struct {
	real *collect.StressRelief
	on   atomic.Bool
}

func (s *c16Stress) Start() error      { return nil }
func (s *c16Stress) UpdateFromConfig() { s.real.UpdateFromConfig() }
func (s *c16Stress) Recalc() uint      { return 0 }
func (s *c16Stress) Stressed() bool    { return s.on.Load() }
func (s *c16Stress) GetSampleRate(traceID string) (uint, bool, string) {
	return s.real.GetSampleRate(traceID)
}

var _ collect.StressReliever = (*c16Stress)(nil)

type c16Health struct{}

func (c16Health) Register(string, time.Duration) {}
func (c16Health) Unregister(string)              {}
func (c16Health) Ready(string, bool)             {}
func (c16Health) IsAlive() bool                  { return true }
func (c16Health) IsReady() bool                  { return true }

type c16Shard struct{ addr string }

func (s *c16Shard) Equals(o sharder.Shard) bool { return s.addr == o.GetAddress() }
func (s *c16Shard) GetAddress() string          { return s.addr }

type c16Sharder struct {
	self   *c16Shard
	peers  []*c16Shard    // index k-1 = peer k
	owners map[string]int // trace id -> owner
}

func (s *c16Sharder) MyShard() sharder.Shard { return s.self }
func (s *c16Sharder) WhichShard(id string) sharder.Shard {
	if k := s.owners[id]; k >= 1 && k <= len(s.peers) {
		return s.peers[k-1]
	}
	return s.self
}

// c16Snap is a deep snapshot of an event.
type c16Snap struct {
	Host, Key, Dataset string
	Rate               uint
	Fields             map[string]any
}

func c16Snapshot(ev *types.Event) c16Snap {
	f := map[string]any{}
	for k, v := range ev.Data.All() {
		f[k] = v
	}
	return c16Snap{Host: ev.APIHost, Key: ev.APIKey, Dataset: ev.Dataset, Rate: ev.SampleRate, Fields: f}
}

type c16Enq struct {
	ev *types.Event
	at c16Snap
}

// c16RecTx records; it keeps the pointer so that the event can be snapshotted
// again when the case is over.
type c16RecTx struct {
	mu  sync.Mutex
	enq []c16Enq
}

func (t *c16RecTx) EnqueueEvent(ev *types.Event) {
	s := c16Snapshot(ev)
	t.mu.Lock()
	t.enq = append(t.enq, c16Enq{ev: ev, at: s})
	t.mu.Unlock()
}
func (t *c16RecTx) EnqueueSpan(sp *types.Span) { t.EnqueueEvent(sp.Event) }

var _ transmit.Transmission = (*c16RecTx)(nil)

// c16Delivery is one event as it reached (direct) or was addressed to (rec) a destination.
type c16Delivery struct {
	Dest    string // hny | peer1 | peer2 | other:<host>
	Via     string // upstream | peer (rec) or "" (direct)
	Key     string
	Dataset string
	Rate    int64
	Fields  map[string]any
}

// c16Sink is a fake HTTP endpoint (Honeycomb API or a peer refinery).
type c16Sink struct {
	name string
	srv  *httptest.Server
	mu   sync.Mutex
	got  []c16Delivery
	bad  []string
	reqs int
}

func c16NewSink(name string) *c16Sink {
	s := &c16Sink{name: name}
	s.srv = httptest.NewServer(http.HandlerFunc(s.serve))
	return s
}

func (s *c16Sink) serve(w http.ResponseWriter, r *http.Request) {
	body, _ := io.ReadAll(r.Body)
	p := r.URL.EscapedPath()
	if !strings.HasPrefix(p, "/1/batch/") || r.Method != "POST" {
		s.mu.Lock()
		s.bad = append(s.bad, r.Method+" "+p)
		s.mu.Unlock()
		w.WriteHeader(404)
		return
	}
	ds, err := url.PathUnescape(strings.TrimPrefix(p, "/1/batch/"))
	var evs []txWireEvent
	if err == nil {
		_, evs, err = txDecodeBatch(r.Header.Get("Content-Encoding"), body)
	}
	s.mu.Lock()
	s.reqs++
	if err != nil {
		s.bad = append(s.bad, "undecodable request: "+err.Error())
	}
	resp := make([]map[string]int, 0, len(evs))
	for _, ev := range evs {
		s.got = append(s.got, c16Delivery{Dest: s.name, Key: r.Header.Get("X-Honeycomb-Team"), Dataset: ds, Rate: ev.SampleRate, Fields: ev.Data})
		resp = append(resp, map[string]int{"status": 202})
	}
	s.mu.Unlock()
	if err != nil {
		w.WriteHeader(400)
		return
	}
	b, _ := json.Marshal(resp)
	w.Header().Set("Content-Type", "application/json")
	w.Write(b)
}

// ---------------------------------------------------------------- addresses

var (
	c16IPOnce sync.Once
	c16IPVal  string
)

// c16IP: every test process uses its own 127.a.b.c (derived from the PID), so
// "find a free port, close it, let the router bind it" cannot collide with the
// other copies of the check running in parallel.
func c16IP() string {
	c16IPOnce.Do(func() {
		pid := os.Getpid()
		cand := fmt.Sprintf("127.%d.%d.%d", 1+(pid>>16)%120, (pid>>8)&0xff, pid&0xff)
		if l, err := net.Listen("tcp", cand+":0"); err == nil {
			l.Close()
			c16IPVal = cand
		} else {
			c16IPVal = "127.0.0.1"
		}
	})
	return c16IPVal
}

func c16FreeAddr() (string, error) {
	l, err := net.Listen("tcp", c16IP()+":0")
	if err != nil {
		return "", err
	}
	defer l.Close()
	return l.Addr().String(), nil
}

var errC16Timing = errors.New("inconclusive-timing")

var c16Counter atomic.Int64

// ---------------------------------------------------------------- reference rule

// c16RefRule answers the stress rule from a fresh collect.StressRelief that
// shares nothing with the node under test ("all nodes make the same decision").
func c16RefRule(rate int) func(string) bool {
	ref := &collect.StressRelief{Config: &config.MockConfig{StressRelief: config.StressReliefConfig{Mode: "always", SamplingRate: uint64(rate)}},
		Logger: &logger.NullLogger{}, Clock: clockwork.NewRealClock()}
	ref.UpdateFromConfig()
	return func(id string) bool {
		_, keep, _ := ref.GetSampleRate(id)
		return keep
	}
}

func c16TraceID(salt, idx, n int) string {
	// 32 hex digits, different for every (salt, idx, n)
	x := uint64(salt)*0x9E3779B97F4A7C15 + uint64(idx)*0xC2B2AE3D27D4EB4F + uint64(n)*0x165667B19E3779F9 + 0x27D4EB2F165667C5
	y := x ^ (x >> 29) ^ 0xD6E8FEB86659FD93
	return fmt.Sprintf("%016x%016x", x, y*0xFF51AFD7ED558CCD)
}

func c16ResolveTraces(c c16Case, rule func(string) bool) []string {
	ids := make([]string, len(c.Traces))
	for i, tr := range c.Traces {
		id := c16TraceID(c.Salt, i, 0)
		for n := 0; n < 400; n++ {
			id = c16TraceID(c.Salt, i, n)
			if tr.Want == "" || (tr.Want == "keep") == rule(id) {
				break
			}
		}
		ids[i] = id
	}
	return ids
}

// ---------------------------------------------------------------- execution

type c16SpanObs struct {
	SID      string
	Op, Idx  int
	Trace    int
	Stressed bool // relief was on when the request was posted
	ViaPeer  bool
	JSON     bool
	Key, DS  string
	Sent     map[string]any
	Status   int // per-event status the router answered
	Probe    bool
}

type c16Obs struct {
	inconclusive string
	ids          []string
	spans        []c16SpanObs
	deliveries   []c16Delivery
	badRequests  []string
	mutations    []string // rec: "<via>/<what>" per enqueued event that changed afterwards
	hnyHost      string
	peerHosts    []string
}

func c16EncodeBatch(asJSON bool, spans []map[string]any, rates []int) ([]byte, string) {
	if asJSON {
		var arr []map[string]any
		for i, f := range spans {
			ev := map[string]any{"data": f, "time": "2024-05-06T07:08:09.123456789Z"}
			if rates[i] > 0 {
				ev["samplerate"] = rates[i]
			}
			arr = append(arr, ev)
		}
		b, _ := json.Marshal(arr)
		return b, "application/json"
	}
	var e c26Enc
	n := len(spans)
	e.b = append(e.b, 0x90|byte(n)) // fixarray, n <= 15
	for i, f := range spans {
		cnt := 1
		if rates[i] > 0 {
			cnt++
		}
		e.mapHeader(cnt)
		if rates[i] > 0 {
			e.str("samplerate")
			e.uint(uint64(rates[i]))
		}
		e.str("data")
		keys := txSortedKeys(f)
		e.mapHeader(len(keys))
		for _, k := range keys {
			e.str(k)
			switch v := f[k].(type) {
			case string:
				e.str(v)
			case bool:
				e.bool(v)
			case float64:
				e.f64(v)
			case int64:
				if v >= 0 {
					e.uint(uint64(v))
				} else if v >= -32 {
					e.b = append(e.b, byte(v))
				} else {
					e.b = append(e.b, 0xd3, byte(v>>56), byte(v>>48), byte(v>>40), byte(v>>32), byte(v>>24), byte(v>>16), byte(v>>8), byte(v))
				}
			default:
				panic("c16: unsupported field type")
			}
		}
	}
	return e.b, "application/msgpack"
}

func c16Run(c c16Case) (obs c16Obs) {
	rule := c16RefRule(c.StressRate)
	obs.ids = c16ResolveTraces(c, rule)
	nonce := fmt.Sprintf("verif-c16-%d-%d", os.Getpid(), c16Counter.Add(1))

	// destinations
	var hny *c16Sink
	var peerSinks []*c16Sink
	if c.Variant == "direct" {
		hny = c16NewSink("hny")
		defer hny.srv.Close()
		obs.hnyHost = hny.srv.URL
		for k := 1; k <= c.Peers; k++ {
			s := c16NewSink(fmt.Sprintf("peer%d", k))
			defer s.srv.Close()
			peerSinks = append(peerSinks, s)
			obs.peerHosts = append(obs.peerHosts, s.srv.URL)
		}
	} else {
		obs.hnyHost = "http://honeycomb.test"
		for k := 1; k <= c.Peers; k++ {
			obs.peerHosts = append(obs.peerHosts, fmt.Sprintf("http://peer%d.test:8081", k))
		}
	}

	inAddr, err1 := c16FreeAddr()
	peerAddr, err2 := c16FreeAddr()
	if err1 != nil || err2 != nil {
		obs.inconclusive = "no free port"
		return
	}
	attrs := map[string]string{}
	if c.Attrs {
		attrs["meta.cluster"] = "verif"
	}
	cfg := &config.MockConfig{
		GetTracesConfigVal: config.TracesConfig{
			SendTicker: config.Duration(2 * time.Millisecond), SendDelay: config.Duration(time.Minute), TraceTimeout: config.Duration(10 * time.Minute),
			MaxBatchSize: uint(c.MaxBatch), SpanLimit: 1000, MaxExpiredTraces: 100, BatchTimeout: config.Duration(time.Duration(c.BatchTimeout) * time.Millisecond),
		},
		GetSamplerTypeVal:  &config.DeterministicSamplerConfig{SampleRate: 1},
		GetSamplerTypeName: "DeterministicSampler",
		GetCollectionConfigVal: config.CollectionConfig{
			WorkerCount: 2, IncomingQueueSize: 1000, PeerQueueSize: 1000, HealthCheckTimeout: config.Duration(time.Hour),
		},
		SampleCache:          config.SampleCacheConfig{KeptSize: 1000, DroppedSize: 10000, SizeCheckInterval: config.Duration(10 * time.Second), WorkerCount: 2},
		StressRelief:         config.StressReliefConfig{Mode: "always", SamplingRate: uint64(c.StressRate), ActivationLevel: 90, DeactivationLevel: 75},
		AddRuleReasonToTrace: c.AddReason,
		AdditionalAttributes: attrs,
		TraceIdFieldNames:    c16IDNames,
		ParentIdFieldNames:   []string{"trace.parent_id", "parentId"},
		GetHoneycombAPIVal:   obs.hnyHost,
		GetListenAddrVal:     inAddr,
		GetPeerListenAddrVal: peerAddr,
		EnvironmentCacheTTL:  time.Hour,
	}
	met := txNewMetrics()
	clock := clockwork.NewRealClock()
	ps := &pubsub.LocalPubSub{Config: cfg, Metrics: met}
	ps.Start()
	defer ps.Stop()
	peers := peer.NewMockPeers(append([]string{"http://" + peerAddr}, obs.peerHosts...), "http://"+peerAddr)
	sf := &sample.SamplerFactory{Config: cfg, Metrics: met, Logger: &logger.NullLogger{}, Peers: peers}
	if err := sf.Start(); err != nil {
		panic(err)
	}
	defer sf.Stop()
	stress := &c16Stress{real: &collect.StressRelief{RefineryMetrics: met, Config: cfg, Logger: &logger.NullLogger{}, Clock: clock}}
	stress.on.Store(!c.StartCalm)

	shr := &c16Sharder{self: &c16Shard{addr: "http://" + peerAddr}, owners: map[string]int{}}
	for _, h := range obs.peerHosts {
		shr.peers = append(shr.peers, &c16Shard{addr: h})
	}
	for i, tr := range c.Traces {
		shr.owners[obs.ids[i]] = tr.Owner
	}

	var upstream, peerTx transmit.Transmission
	var recUp, recPeer *c16RecTx
	var dtUp, dtPeer *transmit.DirectTransmission
	var transports []*http.Transport
	if c.Variant == "direct" {
		mk := func(tt types.TransmitType, compress bool) *transmit.DirectTransmission {
			tr := &http.Transport{DialContext: (&net.Dialer{Timeout: 5 * time.Second}).DialContext, MaxIdleConnsPerHost: 4}
			transports = append(transports, tr)
			dt := transmit.NewDirectTransmission(tt, tr, c.MaxBatch, time.Duration(c.BatchTimeout)*time.Millisecond, 20*time.Second, compress, nil)
			dt.Logger, dt.Version, dt.Metrics, dt.Config = &logger.NullLogger{}, "verif", met, cfg
			if err := dt.Start(); err != nil {
				panic(err)
			}
			return dt
		}
		dtUp, dtPeer = mk(types.TransmitTypeUpstream, true), mk(types.TransmitTypePeer, c.Compress)
		upstream, peerTx = dtUp, dtPeer
	} else {
		recUp, recPeer = &c16RecTx{}, &c16RecTx{}
		upstream, peerTx = recUp, recPeer
	}

	coll := &collect.InMemCollector{
		Config: cfg, Clock: clock, Logger: &logger.NullLogger{}, Tracer: noop.NewTracerProvider().Tracer("verif"),
		Health: c16Health{}, Transmission: upstream, PeerTransmission: peerTx, PubSub: ps, Metrics: met,
		StressRelief: stress, SamplerFactory: sf, Peers: peers, Sharder: shr,
	}
	if err := coll.Start(); err != nil {
		panic(err)
	}
	routerTransport := &http.Transport{DialContext: (&net.Dialer{Timeout: 3 * time.Second}).DialContext}
	mkRouter := func(rt types.RouterType) *route.Router {
		r := &route.Router{Config: cfg, Logger: &logger.NullLogger{}, Health: c16Health{}, HTTPTransport: routerTransport,
			UpstreamTransmission: upstream, PeerTransmission: peerTx, Sharder: shr, Collector: coll, Metrics: met,
			Tracer: noop.NewTracerProvider().Tracer("verif")}
		r.SetVersion(nonce)
		r.SetType(rt)
		r.LnS()
		r.SetEnvironmentCache(time.Hour, func(string) (string, error) { return "env1", nil })
		return r
	}
	rIn, rPeer := mkRouter(types.RouterTypeIncoming), mkRouter(types.RouterTypePeer)

	client := &http.Client{Transport: &http.Transport{DialContext: (&net.Dialer{Timeout: 3 * time.Second}).DialContext}, Timeout: 10 * time.Second}
	stopped := false
	stopAll := func() {
		if stopped {
			return
		}
		stopped = true
		client.CloseIdleConnections()
		done := make(chan struct{})
		go func() {
			defer close(done)
			defer func() { recover() }()
			rIn.Stop()
			rPeer.Stop()
		}()
		select {
		case <-done:
		case <-time.After(20 * time.Second):
			obs.inconclusive = "router did not stop"
		}
		coll.Stop()
		if dtUp != nil {
			dtUp.Stop()
			dtPeer.Stop()
		}
		for _, tr := range transports {
			tr.CloseIdleConnections()
		}
		routerTransport.CloseIdleConnections()
	}
	defer stopAll()

	// wait until both listeners answer with our nonce
	deadline := time.Now().Add(10 * time.Second)
	for _, addr := range []string{inAddr, peerAddr} {
		for {
			resp, err := client.Get("http://" + addr + "/version")
			if err == nil {
				b, _ := io.ReadAll(resp.Body)
				resp.Body.Close()
				if strings.Contains(string(b), nonce) {
					break
				}
				obs.inconclusive = "port served by somebody else"
				return
			}
			if time.Now().After(deadline) {
				obs.inconclusive = "router did not start listening: " + err.Error()
				return
			}
			time.Sleep(time.Millisecond)
		}
	}

	toCollector := 0
	for oi, op := range c.Ops {
		switch op.Op {
		case "relief":
			stress.on.Store(op.On)
			// decisions are written to the drop filter asynchronously (sub-millisecond); give it time
			time.Sleep(5 * time.Millisecond)
		case "pause":
			time.Sleep(time.Duration(op.Ms) * time.Millisecond)
		case "post":
			key, ds := c16Keys[op.Key%len(c16Keys)], c16Datasets[op.DS%len(c16Datasets)]
			var bodies []map[string]any
			var rates []int
			var sos []c16SpanObs
			for si, sp := range op.Spans {
				if sp.Trace < 0 || sp.Trace >= len(c.Traces) {
					continue
				}
				sid := fmt.Sprintf("s%d-%d", oi, si)
				f := c16UserFields(sp.Fields)
				f["sid"] = sid
				f[c16IDNames[sp.IDName%len(c16IDNames)]] = obs.ids[sp.Trace]
				if !sp.Root {
					f["trace.parent_id"] = "p" + sid
				}
				if sp.Probe {
					f["meta.refinery.probe"] = true
				}
				bodies = append(bodies, f)
				rates = append(rates, sp.Rate)
				sos = append(sos, c16SpanObs{SID: sid, Op: oi, Idx: si, Trace: sp.Trace, Stressed: stress.on.Load(), ViaPeer: op.Peer, JSON: op.JSON, Key: key, DS: ds, Sent: f, Probe: sp.Probe})
			}
			if len(bodies) == 0 {
				continue
			}
			body, ct := c16EncodeBatch(op.JSON, bodies, rates)
			addr := inAddr
			if op.Peer {
				addr = peerAddr
			}
			req, _ := http.NewRequest("POST", "http://"+addr+"/1/batch/"+url.PathEscape(ds), bytes.NewReader(body))
			req.Header.Set("Content-Type", ct)
			req.Header.Set("X-Honeycomb-Team", key)
			resp, err := client.Do(req)
			if err != nil {
				obs.inconclusive = "post failed: " + err.Error()
				return
			}
			rb, _ := io.ReadAll(resp.Body)
			resp.Body.Close()
			var sts []struct {
				Status int `json:"status"`
			}
			if resp.StatusCode != 200 || json.Unmarshal(rb, &sts) != nil || len(sts) != len(sos) {
				obs.inconclusive = fmt.Sprintf("router answered %d %q", resp.StatusCode, string(rb))
				return
			}
			for i := range sos {
				sos[i].Status = sts[i].Status
				if sts[i].Status == 202 && !sos[i].Stressed && !sos[i].Probe && c.Traces[sos[i].Trace].Owner == 0 {
					toCollector++
				}
			}
			obs.spans = append(obs.spans, sos...)
		}
	}
	// every span handed to the collector must have been looked at by a worker
	// before we stop (Stop abandons what is still queued)
	deadline = time.Now().Add(10 * time.Second)
	for met.counter("span_processed") < int64(toCollector) {
		if time.Now().After(deadline) {
			obs.inconclusive = "collector did not process its queue in time"
			return
		}
		time.Sleep(time.Millisecond)
	}
	stopAll()
	if obs.inconclusive != "" {
		return
	}
	for _, name := range []string{"libhoney_upstream_send_retries", "libhoney_peer_send_retries", "libhoney_upstream_send_errors", "libhoney_peer_send_errors"} {
		if met.counter(name) > 0 {
			obs.inconclusive = name + " > 0 (a request to a fake endpoint failed or was retried)"
			return
		}
	}

	if c.Variant == "direct" {
		for _, s := range append([]*c16Sink{hny}, peerSinks...) {
			s.mu.Lock()
			obs.deliveries = append(obs.deliveries, s.got...)
			obs.badRequests = append(obs.badRequests, s.bad...)
			s.mu.Unlock()
		}
		return
	}
	destOf := func(host string) string {
		if host == obs.hnyHost {
			return "hny"
		}
		for k, h := range obs.peerHosts {
			if host == h {
				return fmt.Sprintf("peer%d", k+1)
			}
		}
		return "other:" + host
	}
	for _, pair := range []struct {
		via string
		tx  *c16RecTx
	}{{"upstream", recUp}, {"peer", recPeer}} {
		for _, e := range pair.tx.enq {
			obs.deliveries = append(obs.deliveries, c16Delivery{Dest: destOf(e.at.Host), Via: pair.via, Key: e.at.Key, Dataset: e.at.Dataset, Rate: int64(e.at.Rate), Fields: e.at.Fields})
			now := c16Snapshot(e.ev)
			var diff []string
			if now.Host != e.at.Host {
				diff = append(diff, "apihost")
			}
			if now.Key != e.at.Key {
				diff = append(diff, "apikey")
			}
			if now.Dataset != e.at.Dataset {
				diff = append(diff, "dataset")
			}
			if now.Rate != e.at.Rate {
				diff = append(diff, "samplerate")
			}
			for _, k := range txSortedKeys(now.Fields) {
				if v, ok := e.at.Fields[k]; !ok || !reflect.DeepEqual(v, now.Fields[k]) {
					diff = append(diff, k)
				}
			}
			for _, k := range txSortedKeys(e.at.Fields) {
				if _, ok := now.Fields[k]; !ok {
					diff = append(diff, "-"+k)
				}
			}
			if len(diff) > 0 {
				sid, _ := e.at.Fields["sid"].(string)
				obs.mutations = append(obs.mutations, pair.via+"/"+strings.Join(diff, "+")+"|"+sid)
			}
		}
	}
	return
}

// ---------------------------------------------------------------- judge

func c16Num(v any) (float64, bool) {
	switch x := v.(type) {
	case float64:
		return x, true
	case float32:
		return float64(x), true
	case int:
		return float64(x), true
	case uint:
		return float64(x), true
	}
	if i, ok := txToInt(v); ok {
		return float64(i), true
	}
	return 0, false
}

func c16Same(a, b any) bool {
	if fa, ok := c16Num(a); ok {
		fb, ok2 := c16Num(b)
		return ok2 && fa == fb
	}
	return reflect.DeepEqual(a, b)
}

func c16Truthy(v any) bool {
	b, ok := v.(bool)
	return ok && b
}

func c16Judge(c c16Case, obs c16Obs, res *vkit.Result) {
	rule := c16RefRule(c.StressRate)
	v := c.Variant
	bySID := map[string][]c16Delivery{}
	for _, d := range obs.deliveries {
		sid, _ := d.Fields["sid"].(string)
		if sid == "" {
			res.Violate("C16/"+v+"/unattributable-event", "an event without a known span id reached %s: %v", d.Dest, d.Fields)
			continue
		}
		bySID[sid] = append(bySID[sid], d)
		if d.Dest == "hny" {
			if p, ok := d.Fields["meta.refinery.probe"]; ok {
				if c16Truthy(p) {
					// classified per span below (ownership is part of the signature)
				} else {
					res.Class("probe-field-false-at-honeycomb")
				}
			}
		}
	}
	for _, b := range obs.badRequests {
		res.Violate("C16/"+v+"/bad-request-to-endpoint", "%s", b)
	}
	for _, m := range obs.mutations {
		parts := strings.SplitN(m, "|", 2)
		res.Violate("C16/rec/post-enqueue-mutation/"+parts[0], "the event of span %s was changed after it had been handed to the %s transmission (changed: %s)",
			parts[1], strings.SplitN(parts[0], "/", 2)[0], strings.SplitN(parts[0], "/", 2)[1])
	}

	firstStressed := map[int]bool{}
	seen := map[int]bool{}
	for _, s := range obs.spans {
		if s.Status != 202 {
			continue
		}
		if s.Probe {
			continue // a received probe is discarded; it does not make the trace "seen"
		}
		if !seen[s.Trace] {
			seen[s.Trace] = true
			firstStressed[s.Trace] = s.Stressed
		}
	}
	keptForeign := false
	for _, s := range obs.spans {
		tr := c.Traces[s.Trace]
		id := obs.ids[s.Trace]
		own := tr.Owner == 0
		who := "foreign"
		if own {
			who = "own"
		}
		when := "late"
		if s.Stressed {
			when = "stressed"
		}
		sig := func(what string) string { return fmt.Sprintf("C16/%s/%s/%s/%s", v, who, when, what) }
		ds := bySID[s.SID]
		if s.Status != 202 {
			res.Class("span-not-accepted")
			continue
		}
		if s.Probe {
			// A probe received from another refinery is discarded, whatever this
			// node's stress state: never data for Honeycomb, never forwarded.
			state := "calm"
			if s.Stressed {
				state = "stressed"
			}
			res.Class("incoming-probe/" + who + "/" + state)
			for _, d := range ds {
				where := "forwarded-to-peer"
				if d.Dest == "hny" {
					where = "reached-honeycomb"
				}
				res.Violate(fmt.Sprintf("C16/%s/%s/incoming-probe-%s/receiver-%s", v, who, where, state),
					"span %s of trace %s arrived marked meta.refinery.probe=true on the %s listener of a %s node and was sent on to %s (fields %v)",
					s.SID, id, map[bool]string{true: "peer", false: "incoming"}[s.ViaPeer], state, d.Dest, d.Fields)
			}
			continue
		}
		var atHny, atPeers []c16Delivery
		for _, d := range ds {
			if d.Dest == "hny" {
				atHny = append(atHny, d)
			} else {
				atPeers = append(atPeers, d)
			}
		}
		// global: nothing marked as probe may reach Honeycomb
		for _, d := range atHny {
			if c16Truthy(d.Fields["meta.refinery.probe"]) {
				res.Violate(sig("probe-mark-reached-honeycomb"), "span %s of trace %s arrived at Honeycomb carrying meta.refinery.probe=true (fields %v)", s.SID, id, d.Fields)
			}
		}
		// while stressed a peer may only ever be sent probes
		if s.Stressed {
			for _, d := range atPeers {
				if !c16Truthy(d.Fields["meta.refinery.probe"]) {
					res.Violate(sig("peer-received-non-probe"), "span %s (arrived while stressed) was sent to %s without meta.refinery.probe", s.SID, d.Dest)
				}
				if want := fmt.Sprintf("peer%d", tr.Owner); d.Dest != want {
					res.Violate(sig("probe-sent-to-wrong-destination"), "span %s of a trace owned by %q: probe went to %s", s.SID, map[bool]string{true: "this node", false: want}[own], d.Dest)
				}
			}
			if len(atPeers) > 1 {
				res.Violate(sig("peer-received-span-more-than-once"), "span %s was delivered %d times to peers", s.SID, len(atPeers))
			}
		}
		if !firstStressed[s.Trace] {
			res.Class("trace-first-seen-calm(not judged)")
			continue
		}
		keep := rule(id)
		switch {
		case s.Stressed, own:
			if !keep {
				res.Class(when + "-span-of-dropped-trace")
				if len(atHny) > 0 {
					res.Violate(sig("dropped-trace-span-reached-honeycomb"), "trace %s is dropped by the stress rule (rate %d) but span %s reached Honeycomb %d time(s)", id, c.StressRate, s.SID, len(atHny))
				}
				continue
			}
			res.Class(when + "-span-of-kept-trace/" + who)
			if s.Stressed && !own {
				keptForeign = true
			}
			switch len(atHny) {
			case 0:
				if len(atPeers) > 0 {
					res.Violate(sig("kept-span-went-to-peer-instead-of-honeycomb"), "trace %s is kept by the stress rule (rate %d) but span %s never reached Honeycomb; %s received it %d time(s)", id, c.StressRate, s.SID, atPeers[0].Dest, len(atPeers))
				} else {
					res.Violate(sig("kept-span-lost"), "trace %s is kept by the stress rule (rate %d) but span %s reached neither Honeycomb nor any peer", id, c.StressRate, s.SID)
				}
				continue
			case 1:
			default:
				res.Violate(sig("kept-span-duplicated-at-honeycomb"), "span %s reached Honeycomb %d times", s.SID, len(atHny))
			}
			d := atHny[0]
			if s.Stressed && !c16Truthy(d.Fields["meta.stressed"]) {
				res.Violate(sig("kept-span-without-meta.stressed"), "span %s reached Honeycomb without meta.stressed=true: %v", s.SID, d.Fields)
			}
			if d.Key != s.Key {
				res.Violate(sig("api-key-changed"), "span %s sent with key %q reached Honeycomb with key %q", s.SID, s.Key, d.Key)
			}
			if d.Dataset != s.DS {
				res.Violate(sig("dataset-changed"), "span %s sent to dataset %q reached Honeycomb in dataset %q", s.SID, s.DS, d.Dataset)
			}
			var bad []string
			for _, k := range txSortedKeys(s.Sent) {
				got, ok := d.Fields[k]
				if !ok {
					bad = append(bad, "-"+k)
				} else if !c16Same(s.Sent[k], got) {
					bad = append(bad, k)
				}
			}
			for _, k := range txSortedKeys(d.Fields) {
				if _, ok := s.Sent[k]; !ok && !strings.HasPrefix(k, "meta.") {
					bad = append(bad, "+"+k)
				}
			}
			if len(bad) > 0 {
				res.Violate(sig("fields-altered"), "span %s: fields differ at Honeycomb: %v (sent %v, received %v)", s.SID, bad, s.Sent, d.Fields)
			}
			wantRate := int64(max(s.spanRate(c), 1)) * int64(c.StressRate)
			if d.Rate != wantRate {
				res.Class("samplerate-differs(not judged)")
			}
		default:
			res.Class("late-span-of-foreign-trace(not judged)")
		}
	}
	if keptForeign {
		res.NonTrivial = true
	}
	res.Class("variant=" + v)
}

func (s c16SpanObs) spanRate(c c16Case) int {
	if s.Op < len(c.Ops) && s.Idx < len(c.Ops[s.Op].Spans) {
		return c.Ops[s.Op].Spans[s.Idx].Rate
	}
	return 0
}

// c16RuleSanity checks the rule itself on 3000 synthetic ids: rate 1 keeps all,
// otherwise the kept fraction is 1/rate within 6 sigma.
func c16RuleSanity(c c16Case, res *vkit.Result) {
	rule := c16RefRule(c.StressRate)
	const n = 3000
	kept := 0
	for i := 0; i < n; i++ {
		if rule(c16TraceID(c.Salt, 1000+i, i)) {
			kept++
		}
	}
	p := 1 / float64(c.StressRate)
	sigma := math.Sqrt(n * p * (1 - p))
	if math.Abs(float64(kept)-n*p) > 6*sigma+0.5 {
		res.Violate("C16/rule/kept-fraction", "stress rule at rate %d keeps %d of %d synthetic trace ids (expected %.0f +- %.0f)", c.StressRate, kept, n, n*p, 6*sigma)
	}
}

func execC16(c c16Case) vkit.Result {
	var res vkit.Result
	if c.StressRate < 1 || c.MaxBatch < 1 || c.BatchTimeout < 1 || c.Peers < 1 || c.Peers > 2 || len(c.Traces) == 0 || (c.Variant != "direct" && c.Variant != "rec") {
		res.Class("invalid-case")
		return res
	}
	for _, tr := range c.Traces {
		if tr.Owner < 0 || tr.Owner > c.Peers {
			res.Class("invalid-case")
			return res
		}
	}
	for _, op := range c.Ops {
		if len(op.Spans) > 15 {
			res.Class("invalid-case")
			return res
		}
	}
	obs := c16Run(c)
	if obs.inconclusive != "" {
		res.Class("inconclusive-timing")
		res.Obs = obs.inconclusive
		return res
	}
	c16Judge(c, obs, &res)
	c16RuleSanity(c, &res)
	// rename-and-retry: "late" verdicts depend on the decision cache (cuckoo
	// filter, probabilistic); only a verdict that survives re-salted trace ids is reported.
	late := false
	for _, vi := range res.Violations {
		if strings.Contains(vi.Signature, "/late/") {
			late = true
		}
	}
	if late {
		c2 := c
		c2.Salt = c.Salt + 7919
		obs2 := c16Run(c2)
		var res2 vkit.Result
		if obs2.inconclusive == "" {
			c16Judge(c2, obs2, &res2)
		}
		again := map[string]bool{}
		for _, vi := range res2.Violations {
			again[vi.Signature] = true
		}
		var keep []vkit.Violation
		for _, vi := range res.Violations {
			if strings.Contains(vi.Signature, "/late/") && !again[vi.Signature] {
				res.Class("late-verdict-not-reproduced-after-renaming:" + strings.TrimPrefix(vi.Signature, "C16/"))
				continue
			}
			keep = append(keep, vi)
		}
		res.Violations = keep
	}
	sort.SliceStable(res.Violations, func(i, j int) bool { return res.Violations[i].Signature < res.Violations[j].Signature })
	return res
}

func TestC16(t *testing.T) {
	vkit.Run(t, vkit.Spec[c16Case]{
		ID: "C16",
		Rule: "rapid-generated histories (posts of 1-4 spans to /1/batch on the incoming or peer listener, msgpack or JSON; stress relief switched on/off; pauses) over 2-6 traces that are own or foreign and whose ids are aimed at keep/drop under the stress rule, " +
			"against the real Router + InMemCollector with (direct) real DirectTransmissions to a fake Honeycomb and fake peer endpoints on loopback, or (rec) recording transmissions that re-snapshot every enqueued event at the end. " +
			"Varying MaxBatchSize/BatchTimeout puts the stressed span first/middle/alone in its batch. Non-trivial: a kept span of a foreign trace arrived while stressed. Distinct = distinct case JSON.",
		Assumptions: []string{
			"the deterministic rule is taken from a second, independent collect.StressRelief instance with the same SamplingRate (\"every node decides alike\") plus a 6-sigma check of its kept fraction; the hash constants are not pinned",
			"a span that arrives already marked meta.refinery.probe=true (a probe from another refinery, generated directly as wire input on either listener) must be discarded whatever the receiver's stress state: it reaches neither Honeycomb nor a peer and does not count as the trace's first span",
			"judged: traces first seen while relief is on; spans of traces first seen before are only subject to 'no probe at Honeycomb'",
			"late spans (after relief ended) are judged on the owning node only; on a non-owner they are forwarded to the owner (C19) and not judged",
			"extra fields refinery adds under meta.* are allowed at Honeycomb, except meta.refinery.probe; the sample rate is classified, not judged",
			"real loopback sockets and wall clock: verdicts are taken after everything was stopped and flushed; harness lateness, failed or retried requests make the case inconclusive-timing",
			"'late' verdicts (decision cache) must survive re-salting of all trace ids",
		},
		Gen:  genC16,
		Exec: execC16,
	})
}
