// Package vkit is the shared kit of the refinery verification harness:
// generate -> execute -> judge, with case recording, known-finding exclusion,
// replay files and a result file the python driver turns into evidence.
package vkit

import (
	"encoding/json"
	"fmt"
	"hash/fnv"
	"os"
	"path/filepath"
	"runtime/debug"
	"sort"
	"strconv"
	"strings"
	"sync"
	"testing"
	"time"

	"pgregory.net/rapid"
)

// Violation is one deviation from the property found by a judge. Signature is
// the oracle's own classification (stable across runs, specific enough that a
// different deviation of the same property gets a different signature).
type Violation struct {
	Signature string `json:"signature"`
	Detail    string `json:"detail"`
}

// Result is what executing + judging one case yields.
type Result struct {
	Violations []Violation
	Classes    []string // labels for the class histogram
	NonTrivial bool     // by the property's stated rule
	Obs        any      // optional short observation, kept with samples
}

func (r *Result) Violate(sig, format string, args ...any) {
	r.Violations = append(r.Violations, Violation{Signature: sig, Detail: fmt.Sprintf(format, args...)})
}

func (r *Result) Class(c string) { r.Classes = append(r.Classes, c) }

// Spec describes one property check.
type Spec[C any] struct {
	ID          string
	Rule        string
	Assumptions []string
	Gen         func(*rapid.T) C
	Exec        func(C) Result
	// Extra coverage keys computed at the end (optional).
	Extra func() map[string]any
	// MaxSamples kept verbatim (default 3).
	MaxSamples int
}

type knownEntry struct {
	Property  string `json:"property"`
	Signature string `json:"signature"`
	Status    string `json:"status"` // "known" or "fixed"
	What      string `json:"what"`
	Commit    string `json:"commit,omitempty"`
	Replay    string `json:"replay,omitempty"`
}

type violationOut struct {
	Signature string          `json:"signature"`
	Detail    string          `json:"detail"`
	Replay    string          `json:"replay"`
	Case      json.RawMessage `json:"case,omitempty"`
}

type sampleOut struct {
	Case    json.RawMessage `json:"case"`
	Classes []string        `json:"classes,omitempty"`
	Obs     any             `json:"obs,omitempty"`
}

// Out is the result file format (VERIF_OUT).
type Out struct {
	ID                 string         `json:"id"`
	Evaluations        int            `json:"evaluations"`
	Replayed           int            `json:"replayed"`
	NonTrivial         int            `json:"nontrivial"`
	DistinctNonTrivial int            `json:"distinct_nontrivial"`
	Distinct           int            `json:"distinct"`
	Classes            map[string]int `json:"classes"`
	Samples            []sampleOut    `json:"samples"`
	Violations         []violationOut `json:"violations"`
	KnownHits          map[string]int `json:"known_hits"`
	KnownWhat          map[string]string `json:"known_what"`
	Rule               string         `json:"rule"`
	Assumptions        []string       `json:"assumptions"`
	BudgetExhausted    bool           `json:"budget_exhausted"`
	WallS              float64        `json:"wall_s"`
	Extra              map[string]any `json:"extra,omitempty"`
	NTHashes           []string       `json:"nt_hashes,omitempty"`
}

type recorder struct {
	mu        sync.Mutex
	out       Out
	seen      map[uint64]bool
	seenNT    map[uint64]bool
	known     map[string]knownEntry // signature -> entry (status known only)
	maxSample int
	lastFail  *violationOut
	failDir   string
}

func hashBytes(b []byte) uint64 {
	h := fnv.New64a()
	h.Write(b)
	return h.Sum64()
}

func loadKnown(id string) map[string]knownEntry {
	res := map[string]knownEntry{}
	p := os.Getenv("VERIF_KNOWN")
	if p == "" {
		return res
	}
	b, err := os.ReadFile(p)
	if err != nil {
		return res
	}
	var doc struct {
		Findings []knownEntry `json:"findings"`
	}
	if err := json.Unmarshal(b, &doc); err != nil {
		panic("vkit: cannot parse known findings: " + err.Error())
	}
	for _, e := range doc.Findings {
		if e.Property == id && e.Status == "known" {
			res[e.Signature] = e
		}
	}
	return res
}

func (r *recorder) isKnown(sig string) (knownEntry, bool) {
	if e, ok := r.known[sig]; ok {
		return e, true
	}
	for k, e := range r.known {
		if strings.HasSuffix(k, "*") && strings.HasPrefix(sig, strings.TrimSuffix(k, "*")) {
			return e, true
		}
	}
	return knownEntry{}, false
}

// record stores one evaluation; returns the violations that are not known.
func (r *recorder) record(caseJSON []byte, res Result, replayed bool) []Violation {
	r.mu.Lock()
	defer r.mu.Unlock()
	r.out.Evaluations++
	if replayed {
		r.out.Replayed++
	}
	h := hashBytes(caseJSON)
	if !r.seen[h] {
		r.seen[h] = true
		r.out.Distinct++
	}
	for _, c := range res.Classes {
		r.out.Classes[c]++
	}
	if res.NonTrivial {
		r.out.NonTrivial++
		if !r.seenNT[h] {
			r.seenNT[h] = true
			r.out.DistinctNonTrivial++
			if len(r.out.Samples) < r.maxSample {
				cj := caseJSON
				if len(cj) > 6000 {
					cj, _ = json.Marshal(map[string]any{"truncated_case_json_prefix": string(cj[:6000])})
				}
				r.out.Samples = append(r.out.Samples, sampleOut{Case: append([]byte(nil), cj...), Classes: res.Classes, Obs: res.Obs})
			}
		}
	}
	var unknown []Violation
	for _, v := range res.Violations {
		if e, ok := r.isKnown(v.Signature); ok {
			r.out.KnownHits[e.Signature]++
			r.out.KnownWhat[e.Signature] = e.What
			continue
		}
		unknown = append(unknown, v)
	}
	if len(unknown) > 0 {
		r.lastFail = &violationOut{Signature: unknown[0].Signature, Detail: unknown[0].Detail, Case: append([]byte(nil), caseJSON...)}
	}
	return unknown
}

func (r *recorder) saveFail(id string) {
	if r.lastFail == nil {
		return
	}
	dir := r.failDir
	if dir == "" {
		dir = os.TempDir()
	}
	_ = os.MkdirAll(dir, 0o755)
	name := fmt.Sprintf("%s-%016x.json", id, hashBytes(append([]byte(r.lastFail.Signature), r.lastFail.Case...)))
	p := filepath.Join(dir, name)
	doc := map[string]any{"property": id, "signature": r.lastFail.Signature, "detail": r.lastFail.Detail, "case": r.lastFail.Case}
	b, _ := json.MarshalIndent(doc, "", " ")
	_ = os.WriteFile(p, b, 0o644)
	r.lastFail.Replay = p
	r.out.Violations = append(r.out.Violations, *r.lastFail)
	r.lastFail = nil
}

func (r *recorder) write() {
	p := os.Getenv("VERIF_OUT")
	if p == "" {
		return
	}
	for h := range r.seenNT {
		r.out.NTHashes = append(r.out.NTHashes, strconv.FormatUint(h, 16))
	}
	sort.Strings(r.out.NTHashes)
	b, _ := json.MarshalIndent(r.out, "", " ")
	tmp := p + ".tmp"
	_ = os.WriteFile(tmp, b, 0o644)
	_ = os.Rename(tmp, p)
}

// quietTB lets rapid report a failure without failing the go test; the driver
// decides from the result file.
type quietTB struct {
	t      *testing.T
	failed bool
	logs   []string
}

func (q *quietTB) Helper()                           {}
func (q *quietTB) Name() string                      { return q.t.Name() }
func (q *quietTB) Logf(format string, args ...any)   { q.logs = append(q.logs, fmt.Sprintf(format, args...)) }
func (q *quietTB) Log(args ...any)                   { q.logs = append(q.logs, fmt.Sprint(args...)) }
func (q *quietTB) Skipf(format string, args ...any)  { q.t.Skipf(format, args...) }
func (q *quietTB) Skip(args ...any)                  { q.t.Skip(args...) }
func (q *quietTB) SkipNow()                          { q.t.SkipNow() }
func (q *quietTB) Errorf(format string, args ...any) { q.failed = true; q.Logf(format, args...) }
func (q *quietTB) Error(args ...any)                 { q.failed = true; q.Log(args...) }
func (q *quietTB) Fatalf(format string, args ...any) { q.failed = true; q.Logf(format, args...) }
func (q *quietTB) Fatal(args ...any)                 { q.failed = true; q.Log(args...) }
func (q *quietTB) FailNow()                          { q.failed = true }
func (q *quietTB) Fail()                             { q.failed = true }
func (q *quietTB) Failed() bool                      { return q.failed }

// crashCapture: with VERIF_CRASHCAP=<property id> set (by the driver, for checks whose SUT
// runs its own goroutines) the case about to be executed is written to
// $VERIF_CRASHCAP_FILE first, so that when a panic on a goroutine of the code under test
// kills the whole test binary the driver still has the case that did it (the replay file).
var crashCapFile *os.File

func crashCapture[C any](c C) {
	if crashCapFile == nil {
		f := os.Getenv("VERIF_CRASHCAP_FILE")
		if f == "" {
			return
		}
		fh, err := os.OpenFile(f, os.O_CREATE|os.O_RDWR|os.O_TRUNC, 0o644)
		if err != nil {
			return
		}
		crashCapFile = fh
	}
	if b, err := json.Marshal(map[string]any{"property": os.Getenv("VERIF_CRASHCAP"), "case": c}); err == nil {
		// pad-free rewrite in place: write, then cut off what is left of a longer predecessor
		if _, err := crashCapFile.WriteAt(b, 0); err == nil {
			_ = crashCapFile.Truncate(int64(len(b)))
		}
	}
}

func safeExec[C any](exec func(C) Result, c C) (res Result) {
	crashCapture(c)
	defer func() {
		if p := recover(); p != nil {
			st := string(debug.Stack())
			res = Result{}
			res.Violate("harness/panic", "panic during execute/judge: %v\n%s", p, st)
		}
	}()
	return exec(c)
}

// Run drives one property: replay tier, then rapid search.
func Run[C any](t *testing.T, spec Spec[C]) {
	start := time.Now()
	rec := &recorder{
		seen: map[uint64]bool{}, seenNT: map[uint64]bool{},
		known: loadKnown(spec.ID), maxSample: spec.MaxSamples,
		failDir: os.Getenv("VERIF_FAILDIR"),
	}
	if rec.maxSample == 0 {
		rec.maxSample = 3
	}
	rec.out = Out{ID: spec.ID, Classes: map[string]int{}, KnownHits: map[string]int{}, KnownWhat: map[string]string{},
		Rule: spec.Rule, Assumptions: spec.Assumptions}
	defer func() {
		rec.out.WallS = time.Since(start).Seconds()
		if spec.Extra != nil {
			rec.out.Extra = spec.Extra()
		}
		rec.write()
	}()

	runFile := func(p string) {
		b, err := os.ReadFile(p)
		if err != nil {
			t.Fatalf("replay file: %v", err)
		}
		var doc struct {
			Case json.RawMessage `json:"case"`
		}
		if err := json.Unmarshal(b, &doc); err != nil || len(doc.Case) == 0 {
			t.Fatalf("replay file %s: bad format: %v", p, err)
		}
		var c C
		if err := json.Unmarshal(doc.Case, &c); err != nil {
			t.Fatalf("replay file %s: case does not decode: %v", p, err)
		}
		cj, _ := json.Marshal(c)
		res := safeExec(spec.Exec, c)
		if unknown := rec.record(cj, res, true); len(unknown) > 0 {
			rec.lastFail.Replay = p
			rec.out.Violations = append(rec.out.Violations, *rec.lastFail)
			rec.lastFail = nil
			t.Logf("replay %s: VIOLATION %s: %s", p, unknown[0].Signature, unknown[0].Detail)
		}
	}

	if p := os.Getenv("VERIF_REPLAY"); p != "" {
		runFile(p)
		return
	}
	if d := os.Getenv("VERIF_REPLAY_DIR"); d != "" {
		files, _ := filepath.Glob(filepath.Join(d, "*.json"))
		sort.Strings(files)
		for _, f := range files {
			runFile(f)
		}
	}
	if os.Getenv("VERIF_REPLAY_ONLY") != "" {
		return
	}

	var budget time.Duration
	if s := os.Getenv("VERIF_BUDGET_S"); s != "" {
		if f, err := strconv.ParseFloat(s, 64); err == nil {
			budget = time.Duration(f * float64(time.Second))
		}
	}
	q := &quietTB{t: t}
	rapid.Check(q, func(rt *rapid.T) {
		if budget > 0 && time.Since(start) > budget {
			rec.out.BudgetExhausted = true
			return
		}
		c := spec.Gen(rt)
		cj, err := json.Marshal(c)
		if err != nil {
			panic("vkit: case not JSON-able: " + err.Error())
		}
		res := safeExec(spec.Exec, c)
		if unknown := rec.record(cj, res, false); len(unknown) > 0 {
			rt.Fatalf("%s: %s", unknown[0].Signature, unknown[0].Detail)
		}
	})
	if q.failed {
		rec.saveFail(spec.ID)
		if len(rec.out.Violations) == 0 {
			// rapid failed for a reason of its own (e.g. generator health)
			rec.out.Violations = append(rec.out.Violations, violationOut{Signature: "harness/rapid", Detail: strings.Join(q.logs, "\n")})
		}
		for _, l := range q.logs {
			t.Log(l)
		}
	}
}

// Tier returns "quick" or "thorough".
func Tier() string {
	if os.Getenv("VERIF_TIER") == "thorough" {
		return "thorough"
	}
	return "quick"
}

// Thorough reports whether the thorough tier is running.
func Thorough() bool { return Tier() == "thorough" }
