package vkit

import (
	"testing"

	"github.com/honeycombio/refinery/generics"
	"pgregory.net/rapid"
)

func TestSmoke(t *testing.T) {
	rapid.Check(t, func(t *rapid.T) {
		s := generics.NewSet[int]()
		s.Add(rapid.Int().Draw(t, "x"))
	})
}
